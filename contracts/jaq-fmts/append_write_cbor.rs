// ---- appended by /verif overlay (cfg(kani) only) ----
/// run the real `encode` with the real ciborium encoder into a fixed buffer; returns the
/// number of bytes written (ciborium-io, with its `std` feature, takes any `std::io::Write`)
#[cfg(kani)]
pub(crate) fn verif_encode_into(v: &Val, buf: &mut [u8]) -> usize {
    struct W<'a>(&'a mut [u8], usize);
    impl<'a> std::io::Write for W<'a> {
        fn write(&mut self, data: &[u8]) -> std::io::Result<usize> {
            // a write past the buffer is a failed check of the harness, not an io::Error
            assert!(self.1 + data.len() <= self.0.len());
            self.0[self.1..self.1 + data.len()].copy_from_slice(data);
            self.1 += data.len();
            Ok(data.len())
        }
        fn flush(&mut self) -> std::io::Result<()> {
            Ok(())
        }
    }
    let mut w = W(buf, 0);
    let r = write_one(v, &mut w);
    let ok = r.is_ok();
    core::mem::forget(r);
    assert!(ok);
    w.1
}
