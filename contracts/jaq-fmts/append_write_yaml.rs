
// ---- appended by /verif overlay (cfg(kani) only): wrapper exposing a private function to the harness module ----
#[cfg(kani)]
pub(crate) fn verif_must_quote(s: &[u8]) -> bool {
    must_quote(s)
}
