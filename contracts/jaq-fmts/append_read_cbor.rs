// ---- appended by /verif overlay (cfg(kani) only) ----
#[cfg(kani)]
pub(crate) fn verif_parse_int_header(neg: bool, n: u64) -> Option<Val> {
    let empty: &[u8] = &[];
    let mut decoder = Decoder::from(empty);
    // the variant is chosen by the (concrete) caller; see the harnesses
    let h = if neg { Header::Negative(n) } else { Header::Positive(n) };
    let r = parse(h, &mut decoder);
    let v = match r {
        Ok(v) => Some(v),
        Err(e) => {
            core::mem::forget(e);
            None
        }
    };
    v
}
/// pull one header with the real ciborium decoder: Some((is_negative, argument)) for the two
/// integer major types
#[cfg(kani)]
pub(crate) fn verif_pull_header(b: &[u8]) -> Option<(bool, u64)> {
    let mut decoder = Decoder::from(b);
    match decoder.pull() {
        Ok(Header::Positive(p)) => Some((false, p)),
        Ok(Header::Negative(n)) => Some((true, n)),
        Ok(_) => None,
        Err(e) => {
            core::mem::forget(e);
            None
        }
    }
}
#[cfg(kani)]
pub(crate) fn verif_decode_one(b: &[u8]) -> Option<Val> {
    let mut decoder = Decoder::from(b);
    let h = match decoder.pull() {
        Ok(h) => h,
        Err(e) => {
            core::mem::forget(e);
            return None;
        }
    };
    // only the integer headers are followed (one harness per variant rule)
    let r = match h {
        Header::Positive(p) => parse(Header::Positive(p), &mut decoder),
        Header::Negative(n) => parse(Header::Negative(n), &mut decoder),
        _ => return None,
    };
    match r {
        Ok(v) => Some(v),
        Err(e) => {
            core::mem::forget(e);
            None
        }
    }
}
