//! Proof harnesses for `jaq-fmts` (compiled only under cfg(kani)): CBOR integer arithmetic (C14, C05).
#![allow(dead_code, unused_imports, static_mut_refs, clippy::all)]
use core::mem::ManuallyDrop as MD;
use jaq_json::{Num, Val};

/// the integer a number value denotes, in either representation
fn int_value(n: &Num) -> Option<i128> {
    match n {
        Num::Int(i) => Some(*i as i128),
        Num::BigInt(b) => i128::try_from(&**b).ok(),
        _ => None,
    }
}

/// decode side, one harness per header variant (a symbolic discriminant would make symbolic
/// execution walk the array / map arms): the real `parse` maps `Negative(n)` to the integer
/// `-1 - n` and `Positive(n)` to `n` (RFC 8949, major types 1 and 0) for **every** 64-bit
/// argument - as a machine integer whenever it fits, else as the big integer of that value
#[kani::proof]
#[kani::unwind(6)]
fn c14_cbor_decode_negative() {
    let n: u64 = kani::any();
    kani::cover!(n == i64::MAX as u64);
    kani::cover!(n == u64::MAX);
    let v = MD::new(crate::read::cbor::verif_parse_int_header(true, n));
    match &*v {
        Some(Val::Num(x)) => {
            assert!(int_value(x) == Some(-1 - n as i128));
            assert!(matches!(x, Num::Int(_)) == (n <= i64::MAX as u64));
        }
        _ => assert!(false),
    }
}
#[kani::proof]
#[kani::unwind(6)]
fn c14_cbor_decode_positive() {
    let n: u64 = kani::any();
    kani::cover!(n == i64::MAX as u64);
    kani::cover!(n == u64::MAX);
    let v = MD::new(crate::read::cbor::verif_parse_int_header(false, n));
    match &*v {
        Some(Val::Num(x)) => {
            assert!(int_value(x) == Some(n as i128));
            assert!(matches!(x, Num::Int(_)) == (n <= i64::MAX as u64));
        }
        _ => assert!(false),
    }
}

// The writer side (`encode` of a machine integer into the real ciborium encoder, read back by the
// real decoder, split by RFC 8949 argument width class) was built and did not finish within 300 s
// for any class, even with the big-integer fall-back cut and a loop-free writer: symbolic execution
// walks every arm of the recursive `encode`.  See DESIGN.md (C14); the wrappers it used are still
// appended to write/cbor.rs and read/cbor.rs.
