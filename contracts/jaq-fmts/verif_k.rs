//! Proof harnesses for `jaq-fmts` (compiled only under cfg(kani)): CBOR integer arithmetic (C14, C05).
#![allow(dead_code, unused_imports, static_mut_refs, clippy::all)]
use core::mem::ManuallyDrop as MD;
use jaq_json::{Num, Val};

/// the integer a number value denotes, in either representation
fn int_value(n: &Num) -> Option<i128> {
    match n {
        Num::Int(i) => Some(*i as i128),
        Num::BigInt(b) => i128::try_from(&**b).ok(),
        _ => None,
    }
}

/// decode side, one harness per header variant (a symbolic discriminant would make symbolic
/// execution walk the array / map arms): the real `parse` maps `Negative(n)` to the integer
/// `-1 - n` and `Positive(n)` to `n` (RFC 8949, major types 1 and 0) for **every** 64-bit
/// argument - as a machine integer whenever it fits, else as the big integer of that value
#[kani::proof]
#[kani::unwind(6)]
fn c14_cbor_decode_negative() {
    let n: u64 = kani::any();
    kani::cover!(n == i64::MAX as u64);
    kani::cover!(n == u64::MAX);
    let v = MD::new(crate::read::cbor::verif_parse_int_header(true, n));
    match &*v {
        Some(Val::Num(x)) => {
            assert!(int_value(x) == Some(-1 - n as i128));
            assert!(matches!(x, Num::Int(_)) == (n <= i64::MAX as u64));
        }
        _ => assert!(false),
    }
}
#[kani::proof]
#[kani::unwind(6)]
fn c14_cbor_decode_positive() {
    let n: u64 = kani::any();
    kani::cover!(n == i64::MAX as u64);
    kani::cover!(n == u64::MAX);
    let v = MD::new(crate::read::cbor::verif_parse_int_header(false, n));
    match &*v {
        Some(Val::Num(x)) => {
            assert!(int_value(x) == Some(n as i128));
            assert!(matches!(x, Num::Int(_)) == (n <= i64::MAX as u64));
        }
        _ => assert!(false),
    }
}

// The writer side (`encode` of a machine integer into the real ciborium encoder, read back by the
// real decoder, split by RFC 8949 argument width class) was built and did not finish within 300 s
// for any class, even with the big-integer fall-back cut and a loop-free writer: symbolic execution
// walks every arm of the recursive `encode`.  See DESIGN.md (C14); the wrappers it used are still
// appended to write/cbor.rs and read/cbor.rs.

// ------------------------------------------------------------------------------------------
// C13 / C14: the CSV and TSV field readers invert the quoting the formats define
// ------------------------------------------------------------------------------------------
/// RFC 4180 quoting of a field: surround with `"`, double every `"` inside
fn csv_quote(b: &[u8], out: &mut [u8; 10]) -> usize {
    let mut n = 0;
    out[n] = b'"';
    n += 1;
    let mut i = 0;
    while i < b.len() {
        if b[i] == b'"' {
            out[n] = b'"';
            n += 1;
        }
        out[n] = b[i];
        n += 1;
        i += 1;
    }
    out[n] = b'"';
    n + 1
}
/// TSV escaping of a field (the IANA text/tab-separated-values convention jaq documents):
/// `\n \r \t \0 \\` for newline, carriage return, tab, NUL, backslash
fn tsv_escape(b: &[u8], out: &mut [u8; 10]) -> usize {
    let mut n = 0;
    let mut i = 0;
    while i < b.len() {
        let e = match b[i] {
            b'\n' => Some(b'n'),
            b'\r' => Some(b'r'),
            b'\t' => Some(b't'),
            0 => Some(b'0'),
            b'\\' => Some(b'\\'),
            _ => None,
        };
        match e {
            Some(c) => {
                out[n] = b'\\';
                out[n + 1] = c;
                n += 2;
            }
            None => {
                out[n] = b[i];
                n += 1;
            }
        }
        i += 1;
    }
    n
}
/// run the real reader on `quote(b) ++ terminator` and require that it returns exactly `b`
fn reader_case(b: &[u8], tsv: bool, term: Option<u8>) {
    let mut text = [0u8; 10];
    let mut len = if tsv { tsv_escape(b, &mut text) } else { csv_quote(b, &mut text) };
    if let Some(t) = term {
        text[len] = t;
        len += 1;
    }
    let (got, next, quoted, left) = crate::read::tabular::verif_field(&text[..len], tsv);
    assert!(next == term && left == 0);
    assert!(tsv || quoted);
    assert!(got.len() == b.len());
    let mut i = 0;
    while i < b.len() {
        assert!(got[i] == b[i]);
        i += 1;
    }
    core::mem::forget(got);
}
/// For every field content of length <= 2 over the format's metacharacters and a letter, and
/// each way a field can end (end of input, separator, newline): the real field reader, given
/// the format's quoting / escaping of the content, returns exactly the content, stops at the
/// terminator and consumes nothing else - "a CSV or TSV reader of `@csv` / `@tsv` rows recovers
/// exactly the original data and nothing else".  Contents are enumerated concretely (symbolic
/// bytes exhaust CBMC's time or memory).
fn reader_inverts(tsv: bool, first: Option<u8>) {
    let al: &[u8] = if tsv { b"\\\t\n\r\0na" } else { b"\",\n\ra" };
    let sep = if tsv { b'\t' } else { b',' };
    let terms = [None, Some(sep), Some(b'\n')];
    let mut t = 0;
    while t < 3 {
        match first {
            None => reader_case(&[], tsv, terms[t]),
            Some(c0) => {
                reader_case(&[c0], tsv, terms[t]);
                let mut a = 0;
                while a < al.len() {
                    reader_case(&[c0, al[a]], tsv, terms[t]);
                    a += 1;
                }
            }
        }
        t += 1;
    }
}
macro_rules! reader_harnesses {
    ($($name:ident: $tsv:expr, $first:expr;)*) => {$(
        #[kani::proof]
        #[kani::unwind(12)]
        fn $name() {
            reader_inverts($tsv, $first)
        }
    )*};
}
reader_harnesses! {
    c13_csv_reader_empty: false, None;
    c13_csv_reader_quote: false, Some(b'"');
    c13_csv_reader_comma: false, Some(b',');
    c13_csv_reader_nl: false, Some(b'\n');
    c13_csv_reader_cr: false, Some(b'\r');
    c13_csv_reader_a: false, Some(b'a');
    c13_tsv_reader_empty: true, None;
    c13_tsv_reader_bs: true, Some(b'\\');
    c13_tsv_reader_tab: true, Some(b'\t');
    c13_tsv_reader_nl: true, Some(b'\n');
    c13_tsv_reader_cr: true, Some(b'\r');
    c13_tsv_reader_nul: true, Some(0);
    c13_tsv_reader_n: true, Some(b'n');
    c13_tsv_reader_a: true, Some(b'a');
}

// ------------------------------------------------------------------------------------------
// C14: rows - what `tocsv` writes for rows of empty strings / nulls is read back as those rows
// (cells restricted to null and "" so that no number parsing is reached; points)
// ------------------------------------------------------------------------------------------
/// cell kinds of a row: 0 = null, 1 = the empty text string, 9 = anything else
fn cell_kinds(row: &jaq_json::Val, out: &mut [u8; 3]) -> usize {
    match row {
        jaq_json::Val::Arr(a) => {
            let mut i = 0;
            while i < a.len() && i < 3 {
                out[i] = match &a[i] {
                    jaq_json::Val::Null => 0,
                    jaq_json::Val::TStr(s) if s.is_empty() => 1,
                    _ => 9,
                };
                i += 1;
            }
            a.len()
        }
        _ => 99,
    }
}
fn rows_case(text: &[u8], tsv: bool, expect: &[&[u8]]) {
    let rows = core::mem::ManuallyDrop::new(crate::read::tabular::verif_rows(text, tsv));
    assert!(rows.len() == expect.len());
    let mut r = 0;
    while r < expect.len() {
        let mut k = [7u8; 3];
        let n = cell_kinds(&rows[r], &mut k);
        assert!(n == expect[r].len());
        let mut i = 0;
        while i < n {
            assert!(k[i] == expect[r][i]);
            i += 1;
        }
        r += 1;
    }
}
#[kani::proof]
#[kani::unwind(8)]
fn c14_csv_rows_quoted_empty() {
    // what `[""] | tocsv` writes: one row holding one empty string (not "no row")
    rows_case(b"\"\"", false, &[&[1]]);
}
#[kani::proof]
#[kani::unwind(8)]
fn c14_csv_rows_basic() {
    // (what an empty text or a lone newline denotes - no row, [] or [null] - is left open by
    // the property: "`[]` versus `[null]` excepted")
    rows_case(b",", false, &[&[0, 0]]);
    rows_case(b"\"\",\n\"\"\n", false, &[&[1, 0], &[1]]);
}

// ------------------------------------------------------------------------------------------
// C14: YAML - a text string is written plain only if a YAML reader gives the same string back.
// `needs_quote` is the property's side of the contract, written from the YAML 1.2.2 core schema
// (section 10.3.2, tag resolution) and the plain-scalar rule that leading / trailing blanks are
// not part of a plain scalar; `must_quote` is the code's side.  The obligation is
// needs_quote(s) ==> must_quote(s), at points (literals).
// ------------------------------------------------------------------------------------------
fn all_of(s: &[u8], f: fn(&u8) -> bool) -> bool {
    let mut i = 0;
    while i < s.len() {
        if !f(&s[i]) {
            return false;
        }
        i += 1;
    }
    !s.is_empty()
}
fn is_digits(s: &[u8]) -> bool {
    all_of(s, u8::is_ascii_digit)
}
fn unsigned(s: &[u8]) -> (&[u8], bool) {
    match s {
        [b'-' | b'+', rest @ ..] => (rest, true),
        _ => (s, false),
    }
}
fn find(s: &[u8], f: fn(&u8) -> bool) -> Option<usize> {
    let mut i = 0;
    while i < s.len() {
        if f(&s[i]) {
            return Some(i);
        }
        i += 1;
    }
    None
}
/// `[-+]? [0-9]+ | 0o [0-7]+ | 0x [0-9a-fA-F]+`
fn core_int(s: &[u8]) -> bool {
    let (u, signed) = unsigned(s);
    is_digits(u)
        || (!signed && matches!(s, [b'0', b'o', rest @ ..] if all_of(rest, |c| (b'0'..=b'7').contains(c))))
        || (!signed && matches!(s, [b'0', b'x', rest @ ..] if all_of(rest, u8::is_ascii_hexdigit)))
}
/// `[-+]? ( \. [0-9]+ | [0-9]+ ( \. [0-9]* )? ) ( [eE] [-+]? [0-9]+ )?`, `[-+]? \.(inf|Inf|INF)`, `\.(nan|NaN|NAN)`
fn core_float(s: &[u8]) -> bool {
    let (u, signed) = unsigned(s);
    if matches!(u, b".inf" | b".Inf" | b".INF") {
        return true;
    }
    if !signed && matches!(s, b".nan" | b".NaN" | b".NAN") {
        return true;
    }
    let (m, exp_ok) = match find(u, |c| *c == b'e' || *c == b'E') {
        Some(i) => (&u[..i], is_digits(unsigned(&u[i + 1..]).0)),
        None => (u, true),
    };
    let m_ok = match m {
        [b'.', frac @ ..] => is_digits(frac),
        _ => match find(m, |c| *c == b'.') {
            Some(i) => is_digits(&m[..i]) && (m[i + 1..].is_empty() || is_digits(&m[i + 1..])),
            None => is_digits(m),
        },
    };
    m_ok && exp_ok
}
fn needs_quote(s: &[u8]) -> bool {
    let blank = |c: &u8| *c == b' ' || *c == b'\t';
    matches!(s, b"" | b"~" | b"null" | b"Null" | b"NULL" | b"true" | b"True" | b"TRUE" | b"false" | b"False" | b"FALSE" | b"---" | b"...")
        || core_int(s)
        || core_float(s)
        || s.first().is_some_and(blank)
        || s.last().is_some_and(blank)
        || plain_breaks(s)
}
/// what ends or cannot start a plain scalar (YAML 1.2.2, 7.3.3): a `#` after a blank starts a
/// comment, a `:` before a blank or at the end is a mapping indicator, a line break ends a
/// one-line scalar, and an indicator cannot be the first character (`?`, `:`, `-` may, when a
/// non-blank follows)
fn plain_breaks(s: &[u8]) -> bool {
    let blank = |c: u8| c == b' ' || c == b'\t';
    let mut i = 0;
    while i < s.len() {
        let c = s[i];
        if c == b'\n' || c == b'\r' {
            return true;
        }
        if c == b'#' && i > 0 && blank(s[i - 1]) {
            return true;
        }
        if c == b':' && (i + 1 == s.len() || blank(s[i + 1])) {
            return true;
        }
        i += 1;
    }
    match s {
        [b'?' | b':' | b'-'] => true,
        [b'?' | b':' | b'-', next, ..] => blank(*next),
        [c, ..] => matches!(c, b',' | b'[' | b']' | b'{' | b'}' | b'#' | b'&' | b'*' | b'!' | b'|' | b'>' | b'\'' | b'"' | b'%' | b'@' | b'`'),
        [] => false,
    }
}
fn quote_point(s: &[u8]) {
    // the literal is in the property's domain (guards against a vacuous implication) ...
    assert!(needs_quote(s));
    // ... so the writer must not emit it as a plain scalar
    assert!(crate::write::yaml::verif_must_quote(s));
}
/// numbers, null, booleans, document markers in their usual spelling
#[kani::proof]
#[kani::unwind(12)]
fn c14_yaml_quote_core() {
    quote_point(b"1");
    quote_point(b"-1");
    quote_point(b"1e3");
    quote_point(b"0x1F");
    quote_point(b"~");
    quote_point(b"null");
    quote_point(b"True");
    quote_point(b"---");
    quote_point(b".nan");
    quote_point(b".inf");
}
/// numbers with an explicit plus sign or without an integer part
#[kani::proof]
#[kani::unwind(12)]
fn c14_yaml_quote_num() {
    quote_point(b"+1");
    quote_point(b".5");
    quote_point(b"-.5");
    quote_point(b"+.5e1");
}
/// signed infinities
#[kani::proof]
#[kani::unwind(12)]
fn c14_yaml_quote_inf() {
    quote_point(b"-.inf");
    quote_point(b"+.inf");
    quote_point(b"-.INF");
}
/// leading and trailing blanks
#[kani::proof]
#[kani::unwind(12)]
fn c14_yaml_quote_blank() {
    quote_point(b" a");
    quote_point(b"a ");
    quote_point(b"a\t");
    quote_point(b"a b ");
}
/// comments, mapping indicators, line breaks inside the string
#[kani::proof]
#[kani::unwind(12)]
fn c14_yaml_quote_inside() {
    quote_point(b"a #b");
    quote_point(b"a\t#b");
    quote_point(b"a: b");
    quote_point(b"a:");
    quote_point(b"a\nb");
}
/// indicators in first position
#[kani::proof]
#[kani::unwind(24)]
fn c14_yaml_quote_first() {
    quote_point(b"#a");
    quote_point(b"- a");
    quote_point(b"-");
    quote_point(b"\"a");
}
/// vacuity guard for `needs_quote`: ordinary words and non-numbers are outside the domain
#[kani::proof]
#[kani::unwind(12)]
fn c14_yaml_quote_spec_sanity() {
    assert!(!needs_quote(b"a b") && !needs_quote(b"+") && !needs_quote(b".") && !needs_quote(b"+a") && !needs_quote(b"1a") && !needs_quote(b"e1") && !needs_quote(b"0x"));
    assert!(needs_quote(b"1.") && needs_quote(b"1.5E-3") && needs_quote(b"0o17"));
    assert!(!needs_quote(b"a#b") && !needs_quote(b"a:b") && !needs_quote(b"-a") && !needs_quote(b"a-") && !needs_quote(b"a[b"));
}

// ------------------------------------------------------------------------------------------
// C14: TOML keys - what the writer emits for a key is a key in TOML's grammar
// (toml.io v1.1.0 "Keys": a bare key is a NON-EMPTY run of A-Za-z0-9_-; anything else is quoted)
// ------------------------------------------------------------------------------------------
struct KeyBuf {
    b: [u8; 8],
    n: usize,
}
impl core::fmt::Write for KeyBuf {
    fn write_str(&mut self, s: &str) -> core::fmt::Result {
        let s = s.as_bytes();
        let mut i = 0;
        while i < s.len() {
            assert!(self.n < 8);
            self.b[self.n] = s[i];
            self.n += 1;
            i += 1;
        }
        Ok(())
    }
}
fn toml_key_point(key: &'static [u8]) {
    let k = core::mem::ManuallyDrop::new(bytes::Bytes::from_static(key));
    let mut w = KeyBuf { b: [0; 8], n: 0 };
    let ok = crate::write::toml::verif_write_key(&mut w, &k).is_ok();
    assert!(ok);
    let out = &w.b[..w.n];
    let bare = |c: &u8| c.is_ascii_alphanumeric() || *c == b'_' || *c == b'-';
    let mut all_bare = true;
    let mut i = 0;
    while i < out.len() {
        all_bare = all_bare && bare(&out[i]);
        i += 1;
    }
    let quoted = out.len() >= 2 && out[0] == b'"' && out[out.len() - 1] == b'"';
    // what is written is a bare key (non-empty) or a quoted key
    assert!((!out.is_empty() && all_bare) || quoted);
    // and it denotes the key: bare keys are written as they are
    if !out.is_empty() && all_bare {
        assert!(out.len() == key.len());
    }
}
#[kani::proof]
#[kani::unwind(10)]
fn c14_toml_key_empty() {
    toml_key_point(b"");
}
#[kani::proof]
#[kani::unwind(10)]
fn c14_toml_key_bare() {
    toml_key_point(b"a-1");
}
#[kani::proof]
#[kani::unwind(10)]
fn c14_toml_key_quoted() {
    toml_key_point(b"a b");
}
