//! Proof harnesses for `jaq-fmts` (compiled only under cfg(kani)): CBOR integer arithmetic (C14, C05).
#![allow(dead_code, unused_imports, static_mut_refs, clippy::all)]
use core::mem::ManuallyDrop as MD;
use jaq_json::{Num, Val};

/// decode side, one harness per header variant (a symbolic discriminant would make symbolic
/// execution walk the array / map arms): the real `parse` maps `Negative(n)` to the integer
/// `-1 - n` and `Positive(n)` to `n`, as a machine integer whenever it fits
#[kani::proof]
#[kani::unwind(3)]
fn c14_cbor_decode_negative() {
    let n: u64 = kani::any();
    // stay inside the machine-integer range so that num-bigint is not entered
    kani::assume(n <= i64::MAX as u64);
    kani::cover!(n == i64::MAX as u64);
    let v = MD::new(crate::read::cbor::verif_parse_int_header(true, n));
    match &*v {
        Some(Val::Num(Num::Int(i))) => assert!(*i as i128 == -1 - n as i128),
        _ => assert!(false),
    }
}
#[kani::proof]
#[kani::unwind(3)]
fn c14_cbor_decode_positive() {
    let n: u64 = kani::any();
    kani::assume(n <= i64::MAX as u64);
    kani::cover!(n == i64::MAX as u64);
    let v = MD::new(crate::read::cbor::verif_parse_int_header(false, n));
    match &*v {
        Some(Val::Num(Num::Int(i))) => assert!(*i as i128 == n as i128),
        _ => assert!(false),
    }
}

// The writer side (`encode` of a machine integer into the real ciborium encoder, read back by the
// real decoder, split by RFC 8949 argument width class) was built and did not finish within 300 s
// for any class, even with the big-integer fall-back cut and a loop-free writer: symbolic execution
// walks every arm of the recursive `encode`.  See DESIGN.md (C14); the wrappers it used are still
// appended to write/cbor.rs and read/cbor.rs.
