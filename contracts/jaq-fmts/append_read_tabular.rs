// ---- appended by /verif overlay (cfg(kani) only) ----
/// run the real field reader on a byte slice: (contents, character after the field, quoted?, bytes left unread)
#[cfg(kani)]
pub(crate) fn verif_field(b: &[u8], tsv: bool) -> (Vec<u8>, Option<u8>, bool, usize) {
    let mut it = b.iter().map(|c| Ok::<u8, ()>(*c));
    let f = if tsv { tsv_field(&mut it) } else { csv_field(&mut it) };
    let left = it.count();
    match f {
        Ok(f) => (f.bytes, f.next, f.quote, left),
        Err(()) => unreachable!(),
    }
}
