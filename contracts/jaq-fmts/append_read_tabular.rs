// ---- appended by /verif overlay (cfg(kani) only) ----
/// run the real field reader on a byte slice: (contents, character after the field, quoted?, bytes left unread)
#[cfg(kani)]
pub(crate) fn verif_field(b: &[u8], tsv: bool) -> (Vec<u8>, Option<u8>, bool, usize) {
    let mut it = b.iter().map(|c| Ok::<u8, ()>(*c));
    let f = if tsv { tsv_field(&mut it) } else { csv_field(&mut it) };
    let left = it.count();
    match f {
        Ok(f) => (f.bytes, f.next, f.quote, left),
        Err(()) => unreachable!(),
    }
}

/// run the real row reader on a byte slice until it reports the end: the rows it yields
#[cfg(kani)]
pub(crate) fn verif_rows(b: &[u8], tsv: bool) -> Vec<Val> {
    let it = b.iter().map(|c| Ok::<u8, ()>(*c));
    let mut out = Vec::new();
    if tsv {
        for r in read_tsv(it) {
            out.push(r.unwrap());
        }
    } else {
        for r in read_csv(it) {
            out.push(r.unwrap());
        }
    }
    out
}
