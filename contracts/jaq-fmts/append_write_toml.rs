
// ---- appended by /verif overlay (cfg(kani) only): wrapper exposing a private type to the harness module ----
/// write a table key with the real `Display for Key` into `w`
#[cfg(kani)]
pub(crate) fn verif_write_key(w: &mut dyn fmt::Write, key: &Bytes) -> fmt::Result {
    write!(w, "{}", Key(key))
}
