// ---- appended by /verif overlay (cfg(kani) only) ----
#[cfg(kani)]
impl<'s, 't> Parser<'s, 't> {
    /// `verify_last` on a parser whose remaining input is `toks`: is the block accepted?
    pub(crate) fn verif_verify_last(toks: &'t [Token<&'s str>], last: &'static str) -> bool {
        let mut p = Parser::new(toks);
        let r = p.verify_last(last);
        let ok = r.is_ok();
        core::mem::forget(r);
        core::mem::forget(p);
        ok
    }
}
