// ---- appended by /verif overlay (cfg(kani) only) ----
#[cfg(kani)]
impl<'a, U: Clone + 'a, F: IntoIterator<Item = U> + Clone + 'a> Part<F> {
    pub(crate) fn verif_into_iter(self) -> BoxIter<'a, Part<U>> {
        self.into_iter()
    }
}
#[cfg(kani)]
impl<'a, V: ValT + 'a> Part<V> {
    pub(crate) fn verif_run(&self, v: V) -> ValRs<'a, V> {
        self.run(v)
    }
    pub(crate) fn verif_paths(&self, vp: (V, RcList<V>)) -> ValRs<'a, (V, RcList<V>), V> {
        self.paths(vp)
    }
    pub(crate) fn verif_update(&self, v: V, opt: Opt) -> ValX<'a, V> {
        self.update(v, opt, |v| core::iter::once(Ok(v)))
    }
}
