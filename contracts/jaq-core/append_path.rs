// ---- appended by /verif overlay (cfg(kani) only) ----
#[cfg(kani)]
impl<'a, U: Clone + 'a, F: IntoIterator<Item = U> + Clone + 'a> Part<F> {
    pub(crate) fn verif_into_iter(self) -> BoxIter<'a, Part<U>> {
        self.into_iter()
    }
}
