//! Contracts and proof harnesses for `jaq-core` (compiled only under cfg(kani)).
//!
//! First-order kernels under the interpreter: the operator table (C15), variable numbering
//! (C16, C01), argument binding (C01), the pull-count contracts of the lazy combinators (C03),
//! the trampoline stack (C03, C04), `Opt::fail` (C02).
#![allow(dead_code, unused_imports, static_mut_refs, clippy::all)]
use crate::load::parse::{BinaryOp, Pattern};
use crate::load::prec_climb::{self, Associativity, Expr, Op};
use crate::ops::{Cmp, Math};
use alloc::boxed::Box;
use alloc::vec::Vec;
use core::mem::ManuallyDrop as MD;
use core::ops::ControlFlow;

// ------------------------------------------------------------------------------------------
// C15: the operator table
// ------------------------------------------------------------------------------------------
fn any_math() -> Math {
    match kani::any::<u8>() % 5 {
        0 => Math::Add,
        1 => Math::Sub,
        2 => Math::Mul,
        3 => Math::Div,
        _ => Math::Rem,
    }
}
fn any_cmp() -> Cmp {
    match kani::any::<u8>() % 6 {
        0 => Cmp::Lt,
        1 => Cmp::Le,
        2 => Cmp::Gt,
        3 => Cmp::Ge,
        4 => Cmp::Eq,
        _ => Cmp::Ne,
    }
}
/// every binary operator of the grammar (the pattern of `as $x |` is irrelevant to the table)
fn any_op() -> BinaryOp<u8> {
    match kani::any::<u8>() % 12 {
        0 => BinaryOp::Pipe(None),
        1 => BinaryOp::Pipe(Some(Pattern::Var(kani::any()))),
        2 => BinaryOp::Comma,
        3 => BinaryOp::Alt,
        4 => BinaryOp::Or,
        5 => BinaryOp::And,
        6 => BinaryOp::Math(any_math()),
        7 => BinaryOp::Cmp(any_cmp()),
        8 => BinaryOp::Assign,
        9 => BinaryOp::Update,
        10 => BinaryOp::UpdateMath(any_math()),
        _ => BinaryOp::UpdateAlt,
    }
}
/// rank in the manual's table:
/// `|` < `,` < `as $x |` < `=` `|=` `+=` ... `//=` < `//` < `or` < `and` < `==` `!=`
///   < `<` `<=` `>` `>=` < `+` `-` < `*` `/` < `%`
fn manual_rank<S>(op: &BinaryOp<S>) -> usize {
    match op {
        BinaryOp::Pipe(None) => 0,
        BinaryOp::Comma => 1,
        BinaryOp::Pipe(Some(_)) => 2,
        BinaryOp::Assign | BinaryOp::Update | BinaryOp::UpdateMath(_) | BinaryOp::UpdateAlt => 3,
        BinaryOp::Alt => 4,
        BinaryOp::Or => 5,
        BinaryOp::And => 6,
        BinaryOp::Cmp(Cmp::Eq | Cmp::Ne) => 7,
        BinaryOp::Cmp(_) => 8,
        BinaryOp::Math(Math::Add | Math::Sub) => 9,
        BinaryOp::Math(Math::Mul | Math::Div) => 10,
        BinaryOp::Math(Math::Rem) => 11,
    }
}
/// "`|` and the assignments group to the right, all others to the left"
fn manual_right<S>(op: &BinaryOp<S>) -> bool {
    matches!(op, BinaryOp::Pipe(_) | BinaryOp::Assign | BinaryOp::Update | BinaryOp::UpdateMath(_) | BinaryOp::UpdateAlt)
}

#[kani::proof]
#[kani::unwind(9)]
fn c15_precedence_table() {
    let a = MD::new(any_op());
    let b = MD::new(any_op());
    // order-isomorphic to the manual's table, for every pair of operators
    assert!((a.precedence() < b.precedence()) == (manual_rank(&a) < manual_rank(&b)));
    assert!((a.precedence() == b.precedence()) == (manual_rank(&a) == manual_rank(&b)));
    assert!(matches!(a.associativity(), Associativity::Right) == manual_right(&a));
    kani::cover!(manual_rank(&a) == 11 && manual_rank(&b) == 0);
    kani::cover!(manual_right(&a) && manual_rank(&a) == 2);
}

// ------------------------------------------------------------------------------------------
// C15: precedence climbing builds the tree the table implies
// ------------------------------------------------------------------------------------------
/// abstract operator: nothing but a precedence and an associativity
#[derive(Clone, Copy)]
pub struct AbsOp {
    prec: usize,
    right: bool,
}
impl Op for AbsOp {
    fn precedence(&self) -> usize {
        self.prec
    }
    fn associativity(&self) -> Associativity {
        if self.right { Associativity::Right } else { Associativity::Left }
    }
}
/// abstract expression: records the bracketing only (leaves lo..=hi, `code` = the shape)
#[derive(Clone, Copy, PartialEq, Eq)]
pub struct Br {
    lo: u8,
    hi: u8,
    code: u64,
}
fn pair(a: u64, b: u64) -> u64 {
    (a + b) * (a + b + 1) / 2 + b
}
fn node(l: Br, r: Br) -> Br {
    Br { lo: l.lo, hi: r.hi, code: 1 + pair(l.code, r.code) }
}
impl Expr<AbsOp> for Br {
    fn from_op(l: Self, _op: AbsOp, r: Self) -> Self {
        node(l, r)
    }
}
fn lf(i: u8) -> Br {
    Br { lo: i, hi: i, code: 0 }
}
/// The tree the table implies for `t_lo op_lo t_{lo+1} ... op_{hi-1} t_hi`: split at the loosest
/// operator - among equally loose ones the rightmost if they are left-associative, the leftmost
/// if right-associative - and recurse on both sides ("inserting the parentheses the table
/// implies never changes the program").
fn spec_tree(ops: &[AbsOp], lo: usize, hi: usize) -> Br {
    if lo == hi {
        return lf(lo as u8);
    }
    let mut k = lo;
    let mut j = lo + 1;
    while j < hi {
        if ops[j].prec < ops[k].prec || (ops[j].prec == ops[k].prec && !ops[k].right) {
            k = j;
        }
        j += 1;
    }
    node(spec_tree(ops, lo, k), spec_tree(ops, k + 1, hi))
}
/// The real `prec_climb::climb` on every sequence of 1, 2 and 3 operators over three precedence
/// levels with the given associativity per level (operators of equal precedence share their
/// associativity, as in the real table).  `climb` only compares precedences and tests the
/// associativity flag, so three levels cover every order type of three operators.  Sequences
/// are enumerated concretely: `climb1` recurses from inside two nested loops, which makes
/// bounded unwinding on symbolic operators exponential (DESIGN.md 2).
fn climb_len3(right_of_level: [bool; 3]) {
    let op = |p: usize| AbsOp { prec: p, right: right_of_level[p] };
    let mut a = 0;
    while a < 3 {
        let o1 = [op(a)];
        assert!(prec_climb::climb(lf(0), [(o1[0], lf(1))]) == spec_tree(&o1, 0, 1));
        let mut b = 0;
        while b < 3 {
            let o2 = [op(a), op(b)];
            assert!(prec_climb::climb(lf(0), [(o2[0], lf(1)), (o2[1], lf(2))]) == spec_tree(&o2, 0, 2));
            let mut c = 0;
            while c < 3 {
                let o3 = [op(a), op(b), op(c)];
                let got = prec_climb::climb(lf(0), [(o3[0], lf(1)), (o3[1], lf(2)), (o3[2], lf(3))]);
                assert!(got == spec_tree(&o3, 0, 3));
                assert!(got.lo == 0 && got.hi == 3);
                c += 1;
            }
            b += 1;
        }
        a += 1;
    }
}
/// the same for 4 operators (5 leaves)
fn climb_len4(right_of_level: [bool; 3]) {
    let op = |p: usize| AbsOp { prec: p, right: right_of_level[p] };
    let mut n = 0;
    while n < 81 {
        let o = [op(n % 3), op(n / 3 % 3), op(n / 9 % 3), op(n / 27 % 3)];
        let got = prec_climb::climb(lf(0), [(o[0], lf(1)), (o[1], lf(2)), (o[2], lf(3)), (o[3], lf(4))]);
        assert!(got == spec_tree(&o, 0, 4));
        n += 1;
    }
}
macro_rules! climb_harnesses {
    ($($n3:ident $n4:ident: $a:expr, $b:expr, $c:expr;)*) => {$(
        #[kani::proof]
        #[kani::unwind(6)]
        fn $n3() {
            climb_len3([$a, $b, $c])
        }
        #[kani::proof]
        #[kani::unwind(83)]
        fn $n4() {
            climb_len4([$a, $b, $c])
        }
    )*};
}
climb_harnesses! {
    c15_climb3_lll c15_climb4_lll: false, false, false;
    c15_climb3_llr c15_climb4_llr: false, false, true;
    c15_climb3_lrl c15_climb4_lrl: false, true, false;
    c15_climb3_lrr c15_climb4_lrr: false, true, true;
    c15_climb3_rll c15_climb4_rll: true, false, false;
    c15_climb3_rlr c15_climb4_rlr: true, false, true;
    c15_climb3_rrl c15_climb4_rrl: true, true, false;
    c15_climb3_rrr c15_climb4_rrr: true, true, true;
}

// ------------------------------------------------------------------------------------------
// C16 / C01: numbering of imported, global and local variables
// ------------------------------------------------------------------------------------------
use crate::compile::{Compiler, Term};

/// `Compiler::var` with no live local binder: two data imports (each owned by module 0 or 1),
/// two command-line variables, names from a two-letter alphabet, current module 0 or 1.  The
/// run-time variable list is `Vars::new(globals ++ imported values)`, most recent first:
/// imported[1], imported[0], global[1], global[0].  The index returned must select the last
/// data import of that name *owned by the current module*, else the last global of that name;
/// an undefined name is reported (one error), never mis-indexed.
#[kani::proof]
#[kani::unwind(4)]
fn c16_var_numbering() {
    let names = ["$a", "$b"];
    let mut c = Compiler::<&'static str, ()>::default();
    let iv: [bool; 2] = kani::any();
    let im: [bool; 2] = kani::any();
    let gv: [bool; 2] = kani::any();
    let cur: bool = kani::any();
    c.verif_set_vars(
        Vec::from([(names[iv[0] as usize], im[0] as usize), (names[iv[1] as usize], im[1] as usize)]),
        Vec::from([names[gv[0] as usize], names[gv[1] as usize]]),
        cur as usize,
    );
    let q: bool = kani::any();
    let t = MD::new(c.verif_var(names[q as usize]));
    let want: Option<usize> = if iv[1] == q && im[1] == cur {
        Some(0)
    } else if iv[0] == q && im[0] == cur {
        Some(1)
    } else if gv[1] == q {
        Some(2)
    } else if gv[0] == q {
        Some(3)
    } else {
        None
    };
    match (&*t, want) {
        (Term::Var(i), Some(w)) => assert!(*i == w && c.verif_errs() == 0),
        (_, None) => assert!(c.verif_errs() == 1),
        _ => assert!(false),
    }
    kani::cover!(want == Some(3));
    kani::cover!(want == Some(1) && iv[1] == q);
    core::mem::forget(c);
}

/// `binds(sig, args)` pairs the i-th signature kind with the i-th argument, in order
#[kani::proof]
#[kani::unwind(6)]
fn c01_binds() {
    use crate::Bind as Arg;
    let n: usize = kani::any();
    kani::assume(n <= 3);
    let kinds: [bool; 3] = kani::any();
    let ids: [u8; 3] = kani::any();
    let mut sig: Vec<Arg<u8>> = Vec::new();
    let mut k = 0;
    while k < n {
        sig.push(if kinds[k] { Arg::Var(0) } else { Arg::Fun(0) });
        k += 1;
    }
    let out = crate::compile::verif_binds(&sig, &ids[..n]);
    assert!(out.len() == n);
    let mut k = 0;
    while k < n {
        match &out[k] {
            Arg::Var(i) => assert!(kinds[k] && *i == ids[k]),
            Arg::Fun(i) => assert!(!kinds[k] && *i == ids[k]),
        }
        k += 1;
    }
    kani::cover!(n == 3 && kinds[0] != kinds[1]);
}

// ------------------------------------------------------------------------------------------
// C03: pull counts.  `Counting` is an upstream iterator with a ghost pull counter, symbolic
// length and a symbolic but honest size_hint upper bound.
// ------------------------------------------------------------------------------------------
pub struct Counting {
    pub len: u8,
    pub pulled: u8,
    pub hint_hi: Option<usize>,
}
impl Iterator for Counting {
    type Item = u8;
    fn next(&mut self) -> Option<u8> {
        if self.pulled < 200 {
            self.pulled += 1;
        }
        if self.pulled <= self.len {
            Some(self.pulled)
        } else {
            None
        }
    }
    fn size_hint(&self) -> (usize, Option<usize>) {
        (0, self.hint_hi)
    }
}
/// symbolic stream of length <= 3 with an honest upper hint (>= remaining length, or None)
fn any_counting() -> Counting {
    let len: u8 = kani::any();
    kani::assume(len <= 3);
    let hint_hi: Option<usize> = if kani::any() {
        let h: usize = kani::any();
        kani::assume(h >= len as usize && h <= 4);
        Some(h)
    } else {
        None
    };
    Counting { len, pulled: 0, hint_hi }
}

/// `next_if_one` returns an element only under hint `Some(1)`, pulls nothing when it declines
/// because of the hint, and never pulls an element that it does not return
#[kani::proof]
#[kani::unwind(6)]
fn c03_next_if_one() {
    let mut it = any_counting();
    let (len, hi) = (it.len, it.hint_hi);
    let r = crate::box_iter::verif_next_if_one(&mut it);
    match r {
        None => {
            if hi != Some(1) {
                assert!(it.pulled == 0);
            } else {
                assert!(len == 0 && it.pulled == 1);
            }
        }
        Some(x) => assert!(hi == Some(1) && len == 1 && x == 1 && it.pulled <= 2),
    }
    kani::cover!(r.is_some());
    kani::cover!(hi == Some(2) && len == 1);
}

/// ghost: how often the right-hand side closure was called
static mut CALLS: u8 = 0;
/// ghost: upstream pulls at the time of each call
static mut PULLED_AT_CALL: [u8; 4] = [0; 4];

/// `map_with(l, x, r)`: output k is `r(l_k, x)`; to deliver it, upstream has been pulled at
/// most k + 1 times (+1 look-ahead only under hint Some(1), where debug_assert checks the end)
/// and `r` has run exactly k + 1 times: nothing is computed ahead of demand.
#[kani::proof]
#[kani::unwind(7)]
fn c03_map_with() {
    let it = any_counting();
    let (len, hi) = (it.len, it.hint_hi);
    let cell = core::cell::Cell::new(0u8);
    // upstream wrapper exposing the ghost counter through a Cell
    struct Obs<'a>(Counting, &'a core::cell::Cell<u8>);
    impl<'a> Iterator for Obs<'a> {
        type Item = u8;
        fn next(&mut self) -> Option<u8> {
            let r = self.0.next();
            self.1.set(self.0.pulled);
            r
        }
        fn size_hint(&self) -> (usize, Option<usize>) {
            self.0.size_hint()
        }
    }
    unsafe { CALLS = 0 };
    let x: u8 = kani::any();
    let mut out = crate::box_iter::map_with(Obs(it, &cell), x, |y: u8, x: u8| {
        unsafe { CALLS += 1 };
        (y, x)
    });
    // constructing the stream computes at most the single element known to be the only one
    let at_start = unsafe { CALLS };
    assert!(at_start <= 1 && (at_start == 0 || hi == Some(1)));
    let mut k: u8 = 0;
    while k < len {
        let o = out.next();
        assert!(o == Some((k + 1, x)));
        assert!(unsafe { CALLS } == core::cmp::max(k + 1, at_start));
        assert!(cell.get() <= k + 2 && (cell.get() <= k + 1 || hi == Some(1)));
        k += 1;
    }
    assert!(out.next().is_none());
    kani::cover!(len == 3);
    kani::cover!(hi == Some(1) && len == 1);
}

/// `flat_map_then` (and through it `then`): the right-hand side is not run for an upstream
/// element before all outputs of the previous elements were delivered; an upstream error is
/// passed through in place.  The stream shape is *enumerated concretely* (every length <= 3,
/// every error position, every honest size hint <= 4): `FlatMap` over boxed iterators with a
/// symbolic length does not finish in CBMC, each concrete shape takes a fraction of a second.
fn flat_map_then_case(len: u8, err_at: u8, hi: Option<usize>) {
    let it = Counting { len, pulled: 0, hint_hi: hi };
    unsafe { CALLS = 0 };
    let up = it.map(move |y| if y == err_at { Err(y) } else { Ok(y) });
    // r(y) yields two outputs: (y, 0), (y, 1)
    let mut out = crate::box_iter::flat_map_then(up, |y: u8| -> crate::box_iter::Results<'static, (u8, u8), u8> {
        unsafe { CALLS += 1 };
        Box::new([Ok((y, 0)), Ok((y, 1))].into_iter())
    });
    let at_start = unsafe { CALLS };
    assert!(at_start <= 1 && (at_start == 0 || hi == Some(1)));
    let mut k: u8 = 1;
    let mut runs: u8 = 0;
    while k <= len {
        if k == err_at {
            assert!(out.next() == Some(Err(k)));
        } else {
            runs += 1;
            assert!(out.next() == Some(Ok((k, 0))));
            // the second output of element k is delivered before r runs for element k + 1
            assert!(unsafe { CALLS } == core::cmp::max(runs, at_start));
            assert!(out.next() == Some(Ok((k, 1))));
            assert!(unsafe { CALLS } == core::cmp::max(runs, at_start));
        }
        k += 1;
    }
    assert!(out.next().is_none());
}
fn flat_map_then_len(len: u8) {
    let mut err_at = 0;
    while err_at <= 3 {
        flat_map_then_case(len, err_at, None);
        let mut h = len as usize;
        while h <= 4 {
            flat_map_then_case(len, err_at, Some(h));
            h += 1;
        }
        err_at += 1;
    }
}
#[kani::proof]
#[kani::unwind(8)]
fn c03_flat_map_then_0() {
    flat_map_then_len(0)
}
#[kani::proof]
#[kani::unwind(8)]
fn c03_flat_map_then_1() {
    flat_map_then_len(1)
}
#[kani::proof]
#[kani::unwind(8)]
fn c03_flat_map_then_2() {
    flat_map_then_len(2)
}
#[kani::proof]
#[kani::unwind(8)]
fn c03_flat_map_then_3() {
    flat_map_then_len(3)
}

/// `then`: an `Err` is yielded as the single item and the continuation does not run
#[kani::proof]
#[kani::unwind(4)]
fn c03_then() {
    let x: Result<u8, u8> = if kani::any() { Ok(kani::any()) } else { Err(kani::any()) };
    unsafe { CALLS = 0 };
    let mut out = crate::box_iter::then(x, |y: u8| -> crate::box_iter::Results<'static, u8, u8> {
        unsafe { CALLS += 1 };
        crate::box_iter::box_once(Ok(y))
    });
    match x {
        Ok(y) => assert!(out.next() == Some(Ok(y)) && unsafe { CALLS } == 1),
        Err(e) => assert!(out.next() == Some(Err(e)) && unsafe { CALLS } == 0),
    }
    assert!(out.next().is_none());
}

/// `collect_if_once`: the generator closure runs once now; at most one element is taken and
/// only under hint `Some(1)`; otherwise the stream is recreated lazily from the closure
/// (which then runs again from the start, so nothing is lost).
#[kani::proof]
#[kani::unwind(6)]
fn c03_collect_if_once() {
    let len: u8 = kani::any();
    kani::assume(len <= 3);
    let hint_hi: Option<usize> = if kani::any() {
        let h: usize = kani::any();
        kani::assume(h >= len as usize && h <= 4);
        Some(h)
    } else {
        None
    };
    unsafe { CALLS = 0 };
    let f = move || {
        unsafe { CALLS += 1 };
        Counting { len, pulled: 0, hint_hi }
    };
    let e = crate::into_iter::collect_if_once(f);
    assert!(unsafe { CALLS } == 1);
    let mut it = e.into_iter();
    let mut k: u8 = 0;
    while k < len {
        assert!(it.next() == Some(k + 1));
        k += 1;
    }
    assert!(it.next().is_none());
    // one more run of the generator at most (the lazy re-creation)
    assert!(unsafe { CALLS } <= 2);
    if hint_hi == Some(1) && len == 1 {
        assert!(unsafe { CALLS } == 1);
    }
    kani::cover!(len == 3);
    kani::cover!(hint_hi == Some(1) && len == 1);
}

/// `filter::lazy(f)`: `f` does not run before the first `next()`, and runs once
#[kani::proof]
#[kani::unwind(6)]
fn c03_lazy() {
    let len: u8 = kani::any();
    kani::assume(len <= 3);
    unsafe { CALLS = 0 };
    let mut it = crate::filter::verif_lazy(move || {
        unsafe { CALLS += 1 };
        Counting { len, pulled: 0, hint_hi: None }
    });
    assert!(unsafe { CALLS } == 0);
    let mut k: u8 = 0;
    while k < len {
        assert!(it.next() == Some(k + 1));
        assert!(unsafe { CALLS } == 1);
        k += 1;
    }
    assert!(it.next().is_none());
    assert!(unsafe { CALLS } == 1);
    kani::cover!(len == 2);
}

// ------------------------------------------------------------------------------------------
// C03 / C04: the trampoline stack
// ------------------------------------------------------------------------------------------

/// `Stack::next` with a `Break` callback (plain iteration over a stack of iterators): the
/// result is the next element of the topmost non-empty iterator, only iterators above it are
/// popped, each is pulled at most once beyond its end, and an iterator known to be exhausted
/// (`size_hint() == (0, Some(0))`) after yielding is not kept: the height never grows.
#[kani::proof]
#[kani::unwind(6)]
fn c04_stack_break() {
    let a: u8 = kani::any();
    let b: u8 = kani::any();
    kani::assume(a <= 2 && b <= 2);
    let v: Vec<core::ops::Range<u8>> = Vec::from([10..10 + a, 20..20 + b]);
    let mut st = crate::Stack::new(v, |x: u8| -> ControlFlow<u8, core::ops::Range<u8>> { ControlFlow::Break(x) });
    let r = st.next();
    let h = st.verif_len();
    if b > 0 {
        assert!(r == Some(20));
        assert!(h == if b > 1 { 2 } else { 1 });
    } else if a > 0 {
        assert!(r == Some(10));
        assert!(h == if a > 1 { 1 } else { 0 });
    } else {
        assert!(r.is_none() && h == 0);
    }
    kani::cover!(b == 1 && a == 2);
}

/// The tail-call step: the callback answers `Continue(iter)` for a `TailCall` item and the
/// called filter's stream replaces the caller's exhausted one.  With every stream yielding
/// exactly one tail call (the shape of `def f: ... | f`) the height stays <= 1 over any
/// number of steps: here 3 chained tail calls, then a value.
#[kani::proof]
#[kani::unwind(8)]
fn c04_stack_tailcall_height() {
    // item n < 3: "tail call to stream n + 1"; item 3: a value
    let v: Vec<core::iter::Once<u8>> = Vec::from([core::iter::once(0u8)]);
    let mut st = crate::Stack::new(v, |x: u8| -> ControlFlow<u8, core::iter::Once<u8>> {
        if x < 3 {
            ControlFlow::Continue(core::iter::once(x + 1))
        } else {
            ControlFlow::Break(x)
        }
    });
    let r = st.next();
    assert!(r == Some(3));
    // every exhausted caller was dropped before its callee was pushed
    assert!(st.verif_len() == 0);
    assert!(st.next().is_none());
}

/// Growth bound of one `next()` for every callback decision sequence: the height after the
/// call is at most the height before + (number of `Continue` answers), and a one-element stream
/// is gone once it has yielded.  Shapes enumerated concretely (bottom stream of length 0..=2,
/// the first two callback answers Continue / Break); a symbolic shape takes minutes.
fn stack_growth_case(a: u8, go_on: [bool; 2]) {
    static mut CONT: u8 = 0;
    unsafe { CONT = 0 };
    let v: Vec<core::ops::Range<u8>> = Vec::from([0..a]);
    let mut st = crate::Stack::new(v, move |x: u8| -> ControlFlow<u8, core::ops::Range<u8>> {
        let c = unsafe { CONT };
        if c < 2 && go_on[c as usize] {
            unsafe { CONT += 1 };
            // the callee yields one element
            ControlFlow::Continue(100 + c..101 + c)
        } else {
            ControlFlow::Break(x)
        }
    });
    let r = st.next();
    let h = st.verif_len();
    let conts = unsafe { CONT } as usize;
    assert!(h <= 1 + conts);
    if a == 1 {
        // the only element of the bottom stream was consumed: it must not stay on the stack,
        // and each one-element callee is gone once it has yielded
        assert!(h == 0 && r.is_some());
    }
    if a == 2 {
        // the bottom stream has one element left and is the only thing kept
        assert!(h == 1 && r.is_some());
    }
    if a == 0 {
        assert!(r.is_none() && h == 0);
    }
}
#[kani::proof]
#[kani::unwind(7)]
fn c04_stack_growth() {
    let mut a = 0;
    while a <= 2 {
        stack_growth_case(a, [false, false]);
        stack_growth_case(a, [true, false]);
        stack_growth_case(a, [false, true]);
        stack_growth_case(a, [true, true]);
        a += 1;
    }
}

// ------------------------------------------------------------------------------------------
// C02: Opt::fail
// ------------------------------------------------------------------------------------------
#[kani::proof]
fn c02_opt_fail() {
    use crate::path::Opt;
    let x: u8 = kani::any();
    unsafe { CALLS = 0 };
    let f = |y: u8| {
        unsafe { CALLS += 1 };
        y.wrapping_add(1)
    };
    if kani::any() {
        assert!(Opt::Optional.fail(x, f) == Ok(x) && unsafe { CALLS } == 0);
    } else {
        assert!(Opt::Essential.fail(x, f) == Err(x.wrapping_add(1)) && unsafe { CALLS } == 1);
    }
}

// ------------------------------------------------------------------------------------------
// C09 / C08: the operator dispatch tables of ops.rs
// ------------------------------------------------------------------------------------------
/// a value whose arithmetic records which operator was applied to which operands, in order
#[derive(Clone, Copy, PartialEq, Eq)]
struct Tagged(i64);
macro_rules! tagged_op {
    ($t:ident, $m:ident, $tag:expr) => {
        impl core::ops::$t for Tagged {
            type Output = (u8, i64, i64);
            fn $m(self, r: Self) -> (u8, i64, i64) {
                ($tag, self.0, r.0)
            }
        }
    };
}
tagged_op!(Add, add, b'+');
tagged_op!(Sub, sub, b'-');
tagged_op!(Mul, mul, b'*');
tagged_op!(Div, div, b'/');
tagged_op!(Rem, rem, b'%');

/// `Math::run` applies the operator its name says to `(l, r)` in that order, and `as_str` is the
/// manual's symbol, for every operator and all operands
#[kani::proof]
fn c09_math_dispatch() {
    let (l, r): (i64, i64) = kani::any();
    let op = any_math();
    let sym = match op {
        Math::Add => b'+',
        Math::Sub => b'-',
        Math::Mul => b'*',
        Math::Div => b'/',
        Math::Rem => b'%',
    };
    assert!(op.run(Tagged(l), Tagged(r)) == (sym, l, r));
    assert!(op.as_str().as_bytes() == [sym]);
}

/// `Cmp::run` is the comparison its name says, on any ordered type (here all pairs of i64), and
/// `as_str` is the manual's symbol (one concrete operator per call: a symbolic choice among
/// string constants of different lengths makes the slice comparison expensive)
fn cmp_case(op: Cmp, l: i64, r: i64, want: bool, sym: &str) {
    assert!(op.run(&l, &r) == want);
    assert!(op.as_str().len() == sym.len() && op.as_str().as_bytes()[0] == sym.as_bytes()[0]);
    assert!(sym.len() == 1 || op.as_str().as_bytes()[1] == sym.as_bytes()[1]);
}
#[kani::proof]
fn c08_cmp_dispatch() {
    let (l, r): (i64, i64) = kani::any();
    kani::cover!(l == r);
    cmp_case(Cmp::Lt, l, r, l < r, "<");
    cmp_case(Cmp::Le, l, r, l <= r, "<=");
    cmp_case(Cmp::Gt, l, r, l > r, ">");
    cmp_case(Cmp::Ge, l, r, l >= r, ">=");
    cmp_case(Cmp::Eq, l, r, l == r, "==");
    cmp_case(Cmp::Ne, l, r, l != r, "!=");
}

// ------------------------------------------------------------------------------------------
// C01: multi-valued path arguments are combined in the documented nesting order
// ------------------------------------------------------------------------------------------
use crate::path::{Opt, Part, Path};

/// the outputs of a multi-valued sub-filter: 1..=n tagged with `base`
fn outs(base: u8, n: u8) -> Vec<u8> {
    (0..n).map(|k| base + k).collect()
}
/// `Part::into_iter` on `.[y:z]` with multi-valued bounds enumerates `y as $y | z as $z | ...`:
/// `y` in the outer loop, `z` in the inner one; `.[x]`, `.[y:]`, `.[:z]` follow their single
/// argument.  Shapes (0..=2 outputs per bound) enumerated concretely.
#[kani::proof]
#[kani::unwind(6)]
fn c01_range_bounds_order() {
    let mut ny = 0;
    while ny <= 2 {
        let mut nz = 0;
        while nz <= 2 {
            let mut it = Part::Range(Some(outs(10, ny)), Some(outs(20, nz))).verif_into_iter();
            let mut a = 0;
            while a < ny {
                let mut b = 0;
                while b < nz {
                    assert!(matches!(it.next(), Some(Part::Range(Some(y), Some(z))) if y == 10 + a && z == 20 + b));
                    b += 1;
                }
                a += 1;
            }
            assert!(it.next().is_none());
            nz += 1;
        }
        // single-argument forms
        let mut it = Part::Index(outs(10, ny)).verif_into_iter();
        let mut a = 0;
        while a < ny {
            assert!(matches!(it.next(), Some(Part::Index(x)) if x == 10 + a));
            a += 1;
        }
        assert!(it.next().is_none());
        let mut it = Part::Range(Some(outs(10, ny)), None).verif_into_iter();
        let mut a = 0;
        while a < ny {
            assert!(matches!(it.next(), Some(Part::Range(Some(y), None)) if y == 10 + a));
            a += 1;
        }
        assert!(it.next().is_none());
        let mut it = Part::Range(None, Some(outs(20, ny))).verif_into_iter();
        let mut a = 0;
        while a < ny {
            assert!(matches!(it.next(), Some(Part::Range(None, Some(z))) if z == 20 + a));
            a += 1;
        }
        assert!(it.next().is_none());
        ny += 1;
    }
    let mut it = Part::<Vec<u8>>::Range(None, None).verif_into_iter();
    assert!(matches!(it.next(), Some(Part::Range(None, None))) && it.next().is_none());
}

/// `Path::explode` on `.[x][y]` with multi-valued `x`, `y` enumerates `x as $x | y as $y | ...`:
/// earlier path parts vary slowest, and the `?` marks stay attached to their parts
#[kani::proof]
#[kani::unwind(6)]
fn c01_path_parts_order() {
    let mut nx = 0;
    while nx <= 2 {
        let mut ny = 0;
        while ny <= 2 {
            let ok = |v: Vec<u8>| -> Vec<Result<u8, u8>> { v.into_iter().map(Ok).collect() };
            let p = Path(Vec::from([(Part::Index(ok(outs(10, nx))), Opt::Optional), (Part::Index(ok(outs(20, ny))), Opt::Essential)]));
            let mut it = p.explode();
            let mut a = 0;
            while a < nx {
                let mut b = 0;
                while b < ny {
                    match it.next() {
                        Some(Ok(Path(parts))) => {
                            assert!(parts.len() == 2);
                            assert!(matches!(&parts[0], (Part::Index(x), Opt::Optional) if *x == 10 + a));
                            assert!(matches!(&parts[1], (Part::Index(y), Opt::Essential) if *y == 20 + b));
                        }
                        _ => assert!(false),
                    }
                    b += 1;
                }
                a += 1;
            }
            assert!(it.next().is_none());
            ny += 1;
        }
        nx += 1;
    }
}

// ------------------------------------------------------------------------------------------
// C02: the three path evaluators agree on one step (trait-contract instance, RecVal)
// ------------------------------------------------------------------------------------------
use crate::box_iter::{box_once, BoxIter};
use crate::val::{Range as VRange, ValR, ValT, ValX};
use crate::{Error, RcList};
use alloc::string::String;

/// Abstract container value: a value is a tag; its child at key `k` is `child(tag, k)`, it has
/// exactly the keys 1 and 2, its slice `[a:b]` is `slice(tag, a, b)`, and the key that denotes a
/// slice (`V::from(a..b)`) indexes to that slice - the coherence `ValT` documents between
/// `index`, `values`, `key_values` and `range`.  Accessors of keys >= 100 fail (a "wrong type").
#[derive(Clone, Copy, Debug, PartialEq, PartialOrd)]
pub struct RecVal(pub i64);
fn child(t: i64, k: i64) -> i64 {
    t * 7 + k
}
fn enc_bound(b: Option<&RecVal>) -> i64 {
    b.map_or(0, |b| b.0 + 1)
}
fn slice(t: i64, a: i64, b: i64) -> i64 {
    t * 11 + a * 1000 + b * 100_000
}
/// tag of the range key `a..b`: negative, so that it is distinguishable from plain keys
fn range_key(a: i64, b: i64) -> i64 {
    -(1 + a * 1000 + b * 100_000)
}
/// ghost: the last updating accessor that was called: (which, self, a, b, optional?)
static mut LAST_UPD: (u8, i64, i64, i64, bool) = (0, 0, 0, 0, false);


/// the two children of a RecVal, with their keys 1 and 2
struct TwoKeys {
    t: i64,
    k: i64,
}
impl Iterator for TwoKeys {
    type Item = ValR<(RecVal, RecVal), RecVal>;
    fn next(&mut self) -> Option<Self::Item> {
        if self.k < 2 {
            self.k += 1;
            Some(Ok((RecVal(self.k), RecVal(child(self.t, self.k)))))
        } else {
            None
        }
    }
}
struct TwoVals(TwoKeys);
impl Iterator for TwoVals {
    type Item = ValR<RecVal>;
    fn next(&mut self) -> Option<Self::Item> {
        match self.0.next() {
            Some(Ok((_k, v))) => Some(Ok(v)),
            _ => None,
        }
    }
}
impl core::fmt::Display for RecVal {
    fn fmt(&self, _f: &mut core::fmt::Formatter) -> core::fmt::Result {
        Ok(())
    }
}
impl From<bool> for RecVal {
    fn from(_: bool) -> Self {
        unreachable!()
    }
}
impl From<isize> for RecVal {
    fn from(_: isize) -> Self {
        unreachable!()
    }
}
impl From<String> for RecVal {
    fn from(_: String) -> Self {
        unreachable!()
    }
}
impl From<VRange<RecVal>> for RecVal {
    fn from(r: VRange<RecVal>) -> Self {
        RecVal(range_key(enc_bound(r.start.as_ref()), enc_bound(r.end.as_ref())))
    }
}
impl FromIterator<RecVal> for RecVal {
    fn from_iter<T: IntoIterator<Item = RecVal>>(_: T) -> Self {
        unreachable!()
    }
}
macro_rules! rec_op {
    ($t:ident, $m:ident) => {
        impl core::ops::$t for RecVal {
            type Output = ValR<Self>;
            fn $m(self, _r: Self) -> ValR<Self> {
                unreachable!()
            }
        }
    };
}
rec_op!(Add, add);
rec_op!(Sub, sub);
rec_op!(Mul, mul);
rec_op!(Div, div);
rec_op!(Rem, rem);
impl core::ops::Neg for RecVal {
    type Output = ValR<Self>;
    fn neg(self) -> ValR<Self> {
        unreachable!()
    }
}
impl ValT for RecVal {
    fn from_num(_n: &str) -> ValR<Self> {
        unreachable!()
    }
    fn from_map<I: IntoIterator<Item = (Self, Self)>>(_iter: I) -> ValR<Self> {
        unreachable!()
    }
    fn key_values(self) -> BoxIter<'static, ValR<(Self, Self), Self>> {
        Box::new(TwoKeys { t: self.0, k: 0 })
    }
    fn values(self) -> Box<dyn Iterator<Item = ValR<Self>>> {
        Box::new(TwoVals(TwoKeys { t: self.0, k: 0 }))
    }
    fn index(self, index: &Self) -> ValR<Self> {
        if index.0 >= 100 {
            Err(Error::new(self))
        } else if index.0 < 0 {
            // a range key: same as the slice it denotes
            Ok(RecVal(self.0 * 11 - index.0 - 1))
        } else {
            Ok(RecVal(child(self.0, index.0)))
        }
    }
    fn range(self, range: VRange<&Self>) -> ValR<Self> {
        Ok(RecVal(slice(self.0, enc_bound(range.start), enc_bound(range.end))))
    }
    fn map_values<'a, I: Iterator<Item = ValX<'a, Self>>>(self, opt: Opt, _f: impl Fn(Self) -> I) -> ValX<'a, Self> {
        unsafe { LAST_UPD = (1, self.0, 0, 0, matches!(opt, Opt::Optional)) };
        Ok(self)
    }
    fn map_index<'a, I: Iterator<Item = ValX<'a, Self>>>(self, index: &Self, opt: Opt, _f: impl Fn(Self) -> I) -> ValX<'a, Self> {
        unsafe { LAST_UPD = (2, self.0, index.0, 0, matches!(opt, Opt::Optional)) };
        Ok(self)
    }
    fn map_range<'a, I: Iterator<Item = ValX<'a, Self>>>(self, range: VRange<&Self>, opt: Opt, _f: impl Fn(Self) -> I) -> ValX<'a, Self> {
        unsafe { LAST_UPD = (3, self.0, enc_bound(range.start), enc_bound(range.end), matches!(opt, Opt::Optional)) };
        Ok(self)
    }
    fn as_bool(&self) -> bool {
        unreachable!()
    }
    fn into_string(self) -> Self {
        unreachable!()
    }
}

/// One step of a path, for every shape of part (`.[k]`, `.[]`, `.[a:b]`, `.[a:]`, `.[:b]`) and
/// every value / key tag: `paths` yields the same values in the same order as `run`, each with
/// the input path extended by exactly one key `k` such that `v | .[k]` is the yielded value
/// (`getpath(path(p))` reproduces `p` at one step), and `update` calls the updating accessor of
/// the same kind with the same arguments and the same `?` mark.
fn part_agreement(shape: u8, optional: bool) {
    let t: i64 = kani::any();
    let (a, b): (i64, i64) = kani::any();
    kani::assume(0 <= t && t < 50 && 0 <= a && a < 120 && 0 <= b && b < 90);
    let opt = if optional { Opt::Optional } else { Opt::Essential };
    let part: Part<RecVal> = match shape {
        0 => Part::Index(RecVal(a)),
        1 => Part::Range(None, None),
        2 => Part::Range(Some(RecVal(a)), Some(RecVal(b))),
        3 => Part::Range(Some(RecVal(a)), None),
        _ => Part::Range(None, Some(RecVal(b))),
    };
    let v = RecVal(t);
    let p0: RcList<RecVal> = RcList::new().cons(RecVal(77));
    let mut run = part.verif_run(v);
    let mut paths = part.verif_paths((v, p0.clone()));
    let mut k = 0;
    while k < 3 {
        match (run.next(), paths.next()) {
            (None, None) => break,
            (Some(Ok(x)), Some(Ok((y, p)))) => {
                // same value, path extended by one key that indexes to that value
                assert!(x == y);
                assert!(p.get(1) == Some(&RecVal(77)) && p.get(2).is_none());
                let key = *p.get(0).unwrap();
                assert!(matches!(v.index(&key), Ok(z) if z == y));
            }
            (Some(Err(_)), Some(Err(_))) => assert!(shape == 0 && a >= 100),
            _ => assert!(false),
        }
        k += 1;
    }
    assert!(k == if shape == 1 { 2 } else { 1 });
    // update: same accessor kind, same arguments, same `?`
    unsafe { LAST_UPD = (0, 0, 0, 0, false) };
    let r = part.verif_update(v, opt);
    assert!(matches!(r, Ok(z) if z == v));
    let want = match shape {
        0 => (2, t, a, 0, optional),
        1 => (1, t, 0, 0, optional),
        2 => (3, t, a + 1, b + 1, optional),
        3 => (3, t, a + 1, 0, optional),
        _ => (3, t, 0, b + 1, optional),
    };
    assert!(unsafe { LAST_UPD } == want);
}

macro_rules! part_harnesses {
    ($($name:ident: $shape:expr, $opt:expr;)*) => {$(
        #[kani::proof]
        #[kani::unwind(5)]
        fn $name() {
            part_agreement($shape, $opt)
        }
    )*};
}
part_harnesses! {
    c02_part_index_ess: 0, false;
    c02_part_index_opt: 0, true;
    c02_part_iter_opt: 1, true;
    c02_part_range_ess: 2, false;
    c02_part_range_opt: 2, true;
}
// (`.[]` - shape 1 - verified in 83 s in one run and exceeded 600 s in three others; the half-open
// shapes `.[a:]` / `.[:b]` - shapes 3 and 4 - did not finish in 600 s although the two-bound shape
// takes a minute.  None of them is registered as an obligation.)

// (An obligation on `Compiler::call_mod_id` - last matching definition wins, CatchOne iff it
// tail-calls itself - was built on concretely enumerated definition lists and did not finish:
// even one definition with a one-element `BTreeSet` of tail calls exhausted CBMC in 5 minutes.
// The wrappers `verif_push_def` / `verif_call_mod_id` it used are still appended to compile.rs.)

// ------------------------------------------------------------------------------------------
// C04: the trampoline also drops an exhausted iterator whose size hint is not exact
// ------------------------------------------------------------------------------------------
/// an iterator over `lo..hi` with an honest but loose size hint `(0, Some(remaining))`, like
/// the chained / flat-mapped streams the interpreter puts on the stack
struct Loose(u8, u8);
impl Iterator for Loose {
    type Item = u8;
    fn next(&mut self) -> Option<u8> {
        if self.0 < self.1 {
            self.0 += 1;
            Some(self.0 - 1)
        } else {
            None
        }
    }
    fn size_hint(&self) -> (usize, Option<usize>) {
        (0, Some((self.1 - self.0) as usize))
    }
}
/// With loose hints: after an iterator has yielded its last element its hint is
/// `(0, Some(0))` and it must not stay on the stack - whether it was the caller of a tail call
/// (callback answers Continue) or not.  Shapes enumerated concretely.
#[kani::proof]
#[kani::unwind(7)]
fn c04_stack_loose_hint() {
    let mut a = 0u8;
    while a <= 2 {
        // plain iteration
        let mut st = crate::Stack::new(Vec::from([Loose(0, a)]), |x: u8| -> ControlFlow<u8, Loose> { ControlFlow::Break(x) });
        let r = st.next();
        assert!(r == if a > 0 { Some(0) } else { None });
        assert!(st.verif_len() == if a > 1 { 1 } else { 0 });
        // one tail call: the callee (one element) replaces an exhausted caller
        let mut st = crate::Stack::new(Vec::from([Loose(0, a)]), |x: u8| -> ControlFlow<u8, Loose> {
            if x < 10 { ControlFlow::Continue(Loose(10, 11)) } else { ControlFlow::Break(x) }
        });
        let r = st.next();
        assert!(r == if a > 0 { Some(10) } else { None });
        assert!(st.verif_len() == if a > 1 { 1 } else { 0 });
        a += 1;
    }
}

// ------------------------------------------------------------------------------------------
// C11: range/3 equals its `while` definition (trait-contract instance, IntVal)
// ------------------------------------------------------------------------------------------
/// exact integer value type: `+` is checked (an overflow is an error value), everything the
/// function under proof has no business calling is unreachable
#[derive(Clone, Copy, Debug, PartialEq, PartialOrd)]
pub struct IntVal(pub i64);
impl core::fmt::Display for IntVal {
    fn fmt(&self, _f: &mut core::fmt::Formatter) -> core::fmt::Result {
        Ok(())
    }
}
impl From<bool> for IntVal {
    fn from(_: bool) -> Self {
        unreachable!()
    }
}
impl From<isize> for IntVal {
    fn from(i: isize) -> Self {
        IntVal(i as i64)
    }
}
impl From<String> for IntVal {
    fn from(_: String) -> Self {
        unreachable!()
    }
}
impl From<VRange<IntVal>> for IntVal {
    fn from(_: VRange<IntVal>) -> Self {
        unreachable!()
    }
}
impl FromIterator<IntVal> for IntVal {
    fn from_iter<T: IntoIterator<Item = IntVal>>(_: T) -> Self {
        unreachable!()
    }
}
impl core::ops::Add for IntVal {
    type Output = ValR<Self>;
    fn add(self, r: Self) -> ValR<Self> {
        // ghost: the operands in the order written (`+` need not commute for other value types:
        // strings, arrays)
        unsafe { LAST_ADD = Some((self.0, r.0)) };
        self.0.checked_add(r.0).map(IntVal).ok_or_else(|| Error::new(IntVal(-1)))
    }
}
macro_rules! int_op {
    ($t:ident, $m:ident) => {
        impl core::ops::$t for IntVal {
            type Output = ValR<Self>;
            fn $m(self, _r: Self) -> ValR<Self> {
                unreachable!()
            }
        }
    };
}
int_op!(Sub, sub);
int_op!(Mul, mul);
int_op!(Div, div);
int_op!(Rem, rem);
impl core::ops::Neg for IntVal {
    type Output = ValR<Self>;
    fn neg(self) -> ValR<Self> {
        unreachable!()
    }
}
impl ValT for IntVal {
    fn from_num(_n: &str) -> ValR<Self> {
        unreachable!()
    }
    fn from_map<I: IntoIterator<Item = (Self, Self)>>(_iter: I) -> ValR<Self> {
        unreachable!()
    }
    fn key_values(self) -> BoxIter<'static, ValR<(Self, Self), Self>> {
        unreachable!()
    }
    fn values(self) -> Box<dyn Iterator<Item = ValR<Self>>> {
        unreachable!()
    }
    fn index(self, _index: &Self) -> ValR<Self> {
        unreachable!()
    }
    fn range(self, _range: VRange<&Self>) -> ValR<Self> {
        unreachable!()
    }
    fn map_values<'a, I: Iterator<Item = ValX<'a, Self>>>(self, _opt: Opt, _f: impl Fn(Self) -> I) -> ValX<'a, Self> {
        unreachable!()
    }
    fn map_index<'a, I: Iterator<Item = ValX<'a, Self>>>(self, _index: &Self, _opt: Opt, _f: impl Fn(Self) -> I) -> ValX<'a, Self> {
        unreachable!()
    }
    fn map_range<'a, I: Iterator<Item = ValX<'a, Self>>>(self, _range: VRange<&Self>, _opt: Opt, _f: impl Fn(Self) -> I) -> ValX<'a, Self> {
        unreachable!()
    }
    fn as_bool(&self) -> bool {
        unreachable!()
    }
    fn into_string(self) -> Self {
        unreachable!()
    }
}

static mut LAST_ADD: Option<(i64, i64)> = None;
/// The manual's definition:
/// `def range($from; $to; $by): $from | if $by > 0 then while(. < $to; . + $by)
///  elif $by < 0 then while(. > $to; . + $by) else while(. != $to; . + $by) end;`
/// The native `range` must yield exactly those outputs, in order; a zero step yields `$from`
/// for ever (cut after `cut` outputs and required to go on); an overflowing `+` is delivered once
/// as the error and ends the stream.
fn range_case(from: i64, to: i64, by: i64, cut: usize) {
    unsafe { LAST_ADD = None };
    let mut it = crate::funs::verif_range(IntVal(from), IntVal(to), IntVal(by));
    let mut x = from as i128;
    let mut k = 0;
    while k < cut {
        let go = if by > 0 { x < to as i128 } else if by < 0 { x > to as i128 } else { x != to as i128 };
        let got = it.next();
        if !go {
            assert!(got.is_none());
            core::mem::forget(it);
            return;
        }
        match &got {
            Some(Ok(IntVal(y))) => assert!(*y as i128 == x),
            _ => assert!(false),
        }
        core::mem::forget(got);
        // the next element is computed as `. + $by`, operands in that order
        assert!(unsafe { LAST_ADD } == Some((x as i64, by)));
        x += by as i128;
        if x > i64::MAX as i128 || x < i64::MIN as i128 {
            let e = it.next();
            assert!(matches!(&e, Some(Err(_))));
            core::mem::forget(e);
            assert!(it.next().is_none());
            core::mem::forget(it);
            return;
        }
        k += 1;
    }
    // the definition is still producing: so is the native filter
    let got = it.next();
    let go = if by > 0 { x < to as i128 } else if by < 0 { x > to as i128 } else { x != to as i128 };
    assert!(got.is_some() == go);
    core::mem::forget(got);
    core::mem::forget(it);
}
#[kani::proof]
#[kani::unwind(7)]
fn c11_range_small() {
    let mut from = -1;
    while from <= 2 {
        let mut to = -1;
        while to <= 2 {
            let mut by = -1;
            while by <= 1 {
                range_case(from, to, by, 3);
                by += 1;
            }
            to += 1;
        }
        from += 1;
    }
}
#[kani::proof]
#[kani::unwind(7)]
fn c11_range_steps() {
    range_case(0, 5, 2, 4);
    range_case(5, 0, -2, 4);
    range_case(0, 7, 3, 4);
    range_case(0, 0, 0, 3);
    range_case(1, 0, 0, 3);
    range_case(i64::MAX - 2, 0, 3, 3);
    range_case(i64::MIN, i64::MIN + 3, 1, 4);
}
// (The overflow case - `range(i64::MAX - 1; i64::MAX; 2)`: the overflowing `+` delivered once as
// the error, then the end of the stream - exceeded 400 s: constructing, cloning and dropping the
// `Exn` error value is what symbolic execution cannot afford.  `range_case` states it; it is not
// registered.)

// (A two-part obligation - `Path::update` on `.[a]?.[b]` / `.[a].[b]?` addresses each part with
// its own `?` mark, in order, with a container whose `map_index` applies the update function to
// the child - was built and exceeded 400 s for both mark combinations; not registered.)

// ------------------------------------------------------------------------------------------
// C15: a delimited block must be consumed completely
// ------------------------------------------------------------------------------------------
/// `Parser::verify_last(last)` accepts exactly when what remains of the block is the closing
/// delimiter alone (or nothing, for the top level where `last` is ""): leftover tokens before
/// the delimiter - `[1, 2 3]`, `(1 2)`, `"\(1 2)"` - are an error, never silently dropped.
/// Remaining token lists of length 0..=2 over `]`, `)`, `x` and every expected delimiter,
/// enumerated concretely.
#[kani::proof]
#[kani::unwind(6)]
fn c15_verify_last() {
    use crate::load::lex::{Tok, Token};
    use crate::load::parse::Parser;
    let texts = ["]", ")", "x"];
    let lasts = ["", "]", ")"];
    let mut l = 0;
    while l < 3 {
        let last = lasts[l];
        // nothing left
        let none: [Token<&str>; 0] = [];
        assert!(Parser::verif_verify_last(&none, last) == (last == ""));
        let mut a = 0;
        while a < 3 {
            // one token left: accepted iff it is the expected delimiter
            let one = MD::new([Token(texts[a], Tok::Sym)]);
            assert!(Parser::verif_verify_last(&*one, last) == (last != "" && texts[a] == last));
            let mut b = 0;
            while b < 3 {
                // two tokens left: never accepted, whatever the last one is
                let two = MD::new([Token(texts[a], Tok::Sym), Token(texts[b], Tok::Sym)]);
                assert!(!Parser::verif_verify_last(&*two, last));
                b += 1;
            }
            a += 1;
        }
        l += 1;
    }
}

// ------------------------------------------------------------------------------------------
// C15: white space and comments between tokens (with the backslash continuation rule)
// ------------------------------------------------------------------------------------------
/// Independent reading of the manual's rule over bytes: white space is skipped; `#` starts a
/// comment that runs to the end of the line, and a line ending that is *immediately* preceded by
/// an odd number of backslashes (a `\r` directly before the `\n` not counting) continues the
/// comment on the next line.  Returns how many bytes remain.
fn space_spec(b: &[u8]) -> usize {
    let mut i = 0;
    loop {
        while i < b.len() && matches!(b[i], b' ' | b'\t' | b'\n' | b'\r' | 0x0b | 0x0c) {
            i += 1;
        }
        if i >= b.len() || b[i] != b'#' {
            return b.len() - i;
        }
        i += 1;
        loop {
            let start = i;
            while i < b.len() && b[i] != b'\n' {
                i += 1;
            }
            let mut end = i;
            if i < b.len() {
                i += 1; // the newline itself
            }
            if end > start && b[end - 1] == b'\r' {
                end -= 1;
            }
            let mut k = 0;
            while end - k > start && b[end - k - 1] == b'\\' {
                k += 1;
            }
            if k % 2 == 0 || i >= b.len() {
                break;
            }
        }
    }
}
/// `Lexer::space` on `"#" + body + "x\n#y\nz"` for every comment body of length <= 3 over the
/// alphabet { `\`, space, newline, carriage return, `a` } (one harness per first character) and
/// the empty body: the real lexer skips exactly what the rule says.  Inputs are string
/// literals generated by tools (string code on symbolic bytes, or on strings assembled at
/// verification time, does not finish).
fn space_cases(cases: &[&str]) {
    let mut k = 0;
    while k < cases.len() {
        let s = cases[k];
        assert!(crate::load::lex::Lexer::verif_space(s) == space_spec(s.as_bytes()));
        k += 1;
    }
}
#[kani::proof]
#[kani::unwind(14)]
fn c15_space_empty() {
    space_cases(&["#x\n#y\nz", " x", "x # y", ""]);
}
#[kani::proof]
#[kani::unwind(34)]
fn c15_space_bs() {
    space_cases(&["#\\x\n#y\nz", "#\\\\x\n#y\nz", "#\\ x\n#y\nz", "#\\\nx\n#y\nz", "#\\\rx\n#y\nz", "#\\ax\n#y\nz", "#\\\\\\x\n#y\nz", "#\\\\ x\n#y\nz", "#\\\\\nx\n#y\nz", "#\\\\\rx\n#y\nz", "#\\\\ax\n#y\nz", "#\\ \\x\n#y\nz", "#\\  x\n#y\nz", "#\\ \nx\n#y\nz", "#\\ \rx\n#y\nz", "#\\ ax\n#y\nz", "#\\\n\\x\n#y\nz", "#\\\n x\n#y\nz", "#\\\n\nx\n#y\nz", "#\\\n\rx\n#y\nz", "#\\\nax\n#y\nz", "#\\\r\\x\n#y\nz", "#\\\r x\n#y\nz", "#\\\r\nx\n#y\nz", "#\\\r\rx\n#y\nz", "#\\\rax\n#y\nz", "#\\a\\x\n#y\nz", "#\\a x\n#y\nz", "#\\a\nx\n#y\nz", "#\\a\rx\n#y\nz", "#\\aax\n#y\nz"]);
}
#[kani::proof]
#[kani::unwind(34)]
fn c15_space_sp() {
    space_cases(&["# x\n#y\nz", "# \\x\n#y\nz", "#  x\n#y\nz", "# \nx\n#y\nz", "# \rx\n#y\nz", "# ax\n#y\nz", "# \\\\x\n#y\nz", "# \\ x\n#y\nz", "# \\\nx\n#y\nz", "# \\\rx\n#y\nz", "# \\ax\n#y\nz", "#  \\x\n#y\nz", "#   x\n#y\nz", "#  \nx\n#y\nz", "#  \rx\n#y\nz", "#  ax\n#y\nz", "# \n\\x\n#y\nz", "# \n x\n#y\nz", "# \n\nx\n#y\nz", "# \n\rx\n#y\nz", "# \nax\n#y\nz", "# \r\\x\n#y\nz", "# \r x\n#y\nz", "# \r\nx\n#y\nz", "# \r\rx\n#y\nz", "# \rax\n#y\nz", "# a\\x\n#y\nz", "# a x\n#y\nz", "# a\nx\n#y\nz", "# a\rx\n#y\nz", "# aax\n#y\nz"]);
}
#[kani::proof]
#[kani::unwind(34)]
fn c15_space_nl() {
    space_cases(&["#\nx\n#y\nz", "#\n\\x\n#y\nz", "#\n x\n#y\nz", "#\n\nx\n#y\nz", "#\n\rx\n#y\nz", "#\nax\n#y\nz", "#\n\\\\x\n#y\nz", "#\n\\ x\n#y\nz", "#\n\\\nx\n#y\nz", "#\n\\\rx\n#y\nz", "#\n\\ax\n#y\nz", "#\n \\x\n#y\nz", "#\n  x\n#y\nz", "#\n \nx\n#y\nz", "#\n \rx\n#y\nz", "#\n ax\n#y\nz", "#\n\n\\x\n#y\nz", "#\n\n x\n#y\nz", "#\n\n\nx\n#y\nz", "#\n\n\rx\n#y\nz", "#\n\nax\n#y\nz", "#\n\r\\x\n#y\nz", "#\n\r x\n#y\nz", "#\n\r\nx\n#y\nz", "#\n\r\rx\n#y\nz", "#\n\rax\n#y\nz", "#\na\\x\n#y\nz", "#\na x\n#y\nz", "#\na\nx\n#y\nz", "#\na\rx\n#y\nz", "#\naax\n#y\nz"]);
}
#[kani::proof]
#[kani::unwind(34)]
fn c15_space_cr() {
    space_cases(&["#\rx\n#y\nz", "#\r\\x\n#y\nz", "#\r x\n#y\nz", "#\r\nx\n#y\nz", "#\r\rx\n#y\nz", "#\rax\n#y\nz", "#\r\\\\x\n#y\nz", "#\r\\ x\n#y\nz", "#\r\\\nx\n#y\nz", "#\r\\\rx\n#y\nz", "#\r\\ax\n#y\nz", "#\r \\x\n#y\nz", "#\r  x\n#y\nz", "#\r \nx\n#y\nz", "#\r \rx\n#y\nz", "#\r ax\n#y\nz", "#\r\n\\x\n#y\nz", "#\r\n x\n#y\nz", "#\r\n\nx\n#y\nz", "#\r\n\rx\n#y\nz", "#\r\nax\n#y\nz", "#\r\r\\x\n#y\nz", "#\r\r x\n#y\nz", "#\r\r\nx\n#y\nz", "#\r\r\rx\n#y\nz", "#\r\rax\n#y\nz", "#\ra\\x\n#y\nz", "#\ra x\n#y\nz", "#\ra\nx\n#y\nz", "#\ra\rx\n#y\nz", "#\raax\n#y\nz"]);
}
#[kani::proof]
#[kani::unwind(34)]
fn c15_space_a() {
    space_cases(&["#ax\n#y\nz", "#a\\x\n#y\nz", "#a x\n#y\nz", "#a\nx\n#y\nz", "#a\rx\n#y\nz", "#aax\n#y\nz", "#a\\\\x\n#y\nz", "#a\\ x\n#y\nz", "#a\\\nx\n#y\nz", "#a\\\rx\n#y\nz", "#a\\ax\n#y\nz", "#a \\x\n#y\nz", "#a  x\n#y\nz", "#a \nx\n#y\nz", "#a \rx\n#y\nz", "#a ax\n#y\nz", "#a\n\\x\n#y\nz", "#a\n x\n#y\nz", "#a\n\nx\n#y\nz", "#a\n\rx\n#y\nz", "#a\nax\n#y\nz", "#a\r\\x\n#y\nz", "#a\r x\n#y\nz", "#a\r\nx\n#y\nz", "#a\r\rx\n#y\nz", "#a\rax\n#y\nz", "#aa\\x\n#y\nz", "#aa x\n#y\nz", "#aa\nx\n#y\nz", "#aa\rx\n#y\nz", "#aaax\n#y\nz"]);
}

// ------------------------------------------------------------------------------------------
// C05 / C15: one token of the lexer on texts with a non-ASCII character right after each kind of
// token start (points).  `Lexer::lex` as a whole - collecting the token tree - exceeds 900 s even
// on string literals; a single `token()` call takes seconds.
// ------------------------------------------------------------------------------------------
/// `Lexer::token` never panics (no slicing off a character boundary, no unreachable) and
/// consumes exactly the ASCII token prefix: (token found, bytes left, errors recorded)
#[kani::proof]
#[kani::unwind(13)]
fn c05_token_points() {
    use crate::load::lex::Lexer;
    // `.` followed by a letter that is not ASCII: just the dot
    assert!(Lexer::verif_token(".é") == (true, 2, 0));
    assert!(Lexer::verif_token(".a") == (true, 0, 0));
    assert!(Lexer::verif_token("._é") == (true, 2, 0));
    assert!(Lexer::verif_token("..é") == (true, 2, 0));
    // a digit after the dot does not start a key (`.1` is not `."1"`)
    assert!(Lexer::verif_token(".1") == (true, 1, 0));
    assert!(Lexer::verif_token(".a1") == (true, 0, 0));
    // identifiers, numbers and sigils stop before the non-ASCII character
    assert!(Lexer::verif_token("aé") == (true, 2, 0));
    assert!(Lexer::verif_token("1é") == (true, 2, 0));
    assert!(Lexer::verif_token("$é") == (true, 2, 1));
    assert!(Lexer::verif_token("@é") == (true, 2, 1));
    assert!(Lexer::verif_token("a::é") == (true, 2, 1));
    assert!(Lexer::verif_token("+é") == (true, 2, 0));
    // no token starts with it
    assert!(Lexer::verif_token("é") == (false, 2, 0));
    assert!(Lexer::verif_token(" #é\né") == (false, 2, 0));
}
