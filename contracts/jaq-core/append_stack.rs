// ---- appended by /verif overlay (cfg(kani) only) ----
#[cfg(kani)]
impl<I, F> Stack<I, F> {
    pub(crate) fn verif_len(&self) -> usize {
        self.0.len()
    }
}
