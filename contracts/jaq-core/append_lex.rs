// ---- appended by /verif overlay (cfg(kani) only) ----
#[cfg(kani)]
impl<'a> Lexer<&'a str> {
    /// length of what remains after `space()` (white space and comments) on `s`
    pub(crate) fn verif_space(s: &'a str) -> usize {
        let mut l = Lexer::new(s);
        l.space();
        let n = l.i.len();
        core::mem::forget(l);
        n
    }
}
