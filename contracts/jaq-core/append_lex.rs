// ---- appended by /verif overlay (cfg(kani) only) ----
#[cfg(kani)]
impl<'a> Lexer<&'a str> {
    /// length of what remains after `space()` (white space and comments) on `s`
    pub(crate) fn verif_space(s: &'a str) -> usize {
        let mut l = Lexer::new(s);
        l.space();
        let n = l.i.len();
        core::mem::forget(l);
        n
    }
}
#[cfg(kani)]
impl<'a> Lexer<&'a str> {
    /// lex one token of `s`: (was there a token?, bytes left, errors recorded)
    pub(crate) fn verif_token(s: &'a str) -> (bool, usize, usize) {
        let mut l = Lexer::new(s);
        let t = l.token();
        let some = t.is_some();
        core::mem::forget(t);
        let r = (some, l.i.len(), l.e.len());
        core::mem::forget(l);
        r
    }
}
