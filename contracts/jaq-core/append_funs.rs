// ---- appended by /verif overlay (cfg(kani) only) ----
#[cfg(kani)]
pub(crate) fn verif_range<V: ValT>(from: V, to: V, by: V) -> impl Iterator<Item = ValX<'static, V>> {
    range(Ok(from), to, by)
}
