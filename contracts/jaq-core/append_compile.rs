// ---- appended by /verif overlay (cfg(kani) only): access to private state for harnesses ----
#[cfg(kani)]
pub(crate) fn verif_binds<T, U: Copy>(sig: &[Arg<T>], args: &[U]) -> Box<[Arg<U>]> {
    binds(sig, args)
}
#[cfg(kani)]
impl<F> Compiler<&'static str, F> {
    /// set the imported / global variable tables as `Compiler::compile` /
    /// `with_global_vars` do, and the number of modules compiled so far
    pub(crate) fn verif_set_vars(&mut self, imported: Vec<(&'static str, ModId)>, global: Vec<&'static str>, cur: usize) {
        self.imported_vars = imported;
        self.global_vars = global;
        for _ in 0..cur {
            self.mod_map.push(Vec::new());
        }
    }
    pub(crate) fn verif_push_var(&mut self, x: &'static str) {
        self.locals.vars.push(Bind::Var(x))
    }
    pub(crate) fn verif_var(&mut self, x: &'static str) -> Term {
        self.var(x)
    }
    pub(crate) fn verif_errs(&self) -> usize {
        self.errs.len()
    }
}
#[cfg(kani)]
impl<F> Compiler<&'static str, F> {
    /// append a top-level definition `name/arity` with term id `id` to module `mid` (creating the
    /// modules up to `mid`), tail-calling itself iff `self_rec` - the shape `def_post` stores
    pub(crate) fn verif_push_def(&mut self, mid: usize, name: &'static str, arity: usize, id: usize, self_rec: bool) {
        while self.mod_map.len() <= mid {
            self.mod_map.push(Vec::new());
        }
        let args: Box<[Arg]> = (0..arity).map(|_| Arg::Fun(())).collect();
        let tr = if self_rec { Tr::from([TermId(id)]) } else { Tr::new() };
        self.mod_map[mid].push((Sig { name, args }, TermId(id), tr));
    }
    pub(crate) fn verif_call_mod_id(&self, mid: usize, name: &'static str, args: &[TermId]) -> Option<Term> {
        self.call_mod_id(mid, name, args)
    }
}
#[cfg(kani)]
impl Term {
    /// (definition id, number of arguments, variables to skip, call type as 0 Inline / 1 CatchOne / 2 other)
    pub(crate) fn verif_as_call_def(&self) -> Option<(usize, usize, usize, u8)> {
        match self {
            Term::CallDef(id, args, skip, typ) => Some((id.0, args.len(), *skip, match typ {
                CallType::Inline => 0,
                CallType::CatchOne => 1,
                _ => 2,
            })),
            _ => None,
        }
    }
}
