// ---- appended by /verif overlay (cfg(kani) only): access to private state for harnesses ----
#[cfg(kani)]
pub(crate) fn verif_binds<T, U: Copy>(sig: &[Arg<T>], args: &[U]) -> Box<[Arg<U>]> {
    binds(sig, args)
}
#[cfg(kani)]
impl<F> Compiler<&'static str, F> {
    /// set the imported / global variable tables as `Compiler::compile` /
    /// `with_global_vars` do, and the number of modules compiled so far
    pub(crate) fn verif_set_vars(&mut self, imported: Vec<(&'static str, ModId)>, global: Vec<&'static str>, cur: usize) {
        self.imported_vars = imported;
        self.global_vars = global;
        for _ in 0..cur {
            self.mod_map.push(Vec::new());
        }
    }
    pub(crate) fn verif_push_var(&mut self, x: &'static str) {
        self.locals.vars.push(Bind::Var(x))
    }
    pub(crate) fn verif_var(&mut self, x: &'static str) -> Term {
        self.var(x)
    }
    pub(crate) fn verif_errs(&self) -> usize {
        self.errs.len()
    }
}
