// ---- appended by /verif overlay (cfg(kani) only) ----
#[cfg(kani)]
pub(crate) fn verif_next_if_one<T>(iter: &mut impl Iterator<Item = T>) -> Option<T> {
    next_if_one(iter)
}
