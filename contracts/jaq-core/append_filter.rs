// ---- appended by /verif overlay (cfg(kani) only) ----
#[cfg(kani)]
pub(crate) fn verif_lazy<I: Iterator, F: FnOnce() -> I>(f: F) -> impl Iterator<Item = I::Item> {
    lazy(f)
}
