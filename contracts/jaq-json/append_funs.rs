// ---- appended by /verif overlay (cfg(kani) only): wrappers exposing private methods to the harness module ----
#[cfg(kani)]
pub(crate) fn verif_contains(a: &Val, b: &Val) -> bool {
    a.contains(b)
}
/// the positions `indices` yields, at most 4 of them (count returned separately)
#[cfg(kani)]
pub(crate) fn verif_indices(a: &Val, b: &Val) -> Option<(usize, [usize; 4])> {
    let mut out = [usize::MAX; 4];
    let mut n = 0;
    for i in a.indices(b).ok()? {
        if n < 4 {
            out[n] = i;
        }
        n += 1;
    }
    Some((n, out))
}
