// ---- appended by /verif overlay (cfg(kani) only): wrapper exposing a private function to the harness module ----
/// run the real number reader on a byte slice (hifijson's slice lexer, as `parse_single_num` and the JSON reader do)
#[cfg(kani)]
pub(crate) fn verif_parse_num(s: &[u8]) -> Result<Num, hifijson::Error> {
    parse_num(&mut SliceLexer::new(s))
}
/// run the real string reader on the text after the opening quote
#[cfg(kani)]
pub(crate) fn verif_parse_string(s: &[u8], bytes: bool) -> Result<Vec<u8>, hifijson::Error> {
    parse_string(&mut SliceLexer::new(s), bytes)
}
