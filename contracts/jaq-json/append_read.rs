// ---- appended by /verif overlay (cfg(kani) only): wrapper exposing a private function to the harness module ----
/// run the real number reader on a byte slice (hifijson's slice lexer, as `parse_single_num` and the JSON reader do)
#[cfg(kani)]
pub(crate) fn verif_parse_num(s: &[u8]) -> Result<Num, hifijson::Error> {
    parse_num(&mut SliceLexer::new(s))
}
