//! Contracts, spec functions and proof harnesses for `jaq-json` (compiled only under cfg(kani)).
//!
//! This file is copied next to the crate root of a *snapshot* of /repo by /verif/lib/overlay.py;
//! it never touches /repo.  Spec functions are the formal reading of the property statements
//! (positions: C10; order / equality / hashing: C08; exact integer arithmetic: C09); the real
//! functions are reached directly (this module is a child of the crate root) or through the
//! `#[cfg(kani)]` forwarding wrappers appended to `num.rs`.
#![allow(dead_code, unused_imports, clippy::all)]
use super::*;
use crate::num::PosUsize;
use core::cmp::Ordering::{self, Equal, Greater, Less};
use core::mem::ManuallyDrop as MD;

// ------------------------------------------------------------------------------------------
// C10: one position model.  A position is an integer i (|i| <= usize::MAX); PosUsize(p, n)
// stands for +n if p, -n otherwise.  All specs compute in i128.
// ------------------------------------------------------------------------------------------

impl kani::Arbitrary for PosUsize {
    fn any() -> Self {
        PosUsize(kani::any(), kani::any())
    }
}

/// the integer a PosUsize denotes
pub fn pos_int(p: bool, n: usize) -> i128 {
    if p { n as i128 } else { -(n as i128) }
}
/// "negative positions count from the end"
pub fn model_pos(i: i128, len: usize) -> i128 {
    if i >= 0 { i } else { len as i128 + i }
}
pub fn wrap_spec(p: bool, n: usize, len: usize) -> Option<usize> {
    // (false, 0) denotes -0 = 0, which counts from the end like every non-positive PosUsize
    let v = if p { n as i128 } else { len as i128 - n as i128 };
    if v >= 0 { Some(v as usize) } else { None }
}
/// "slice bounds are clipped and null means open"
pub fn abs_bound_spec(i: Option<PosUsize>, len: usize, default: usize) -> usize {
    match i {
        None => default,
        Some(PosUsize(p, n)) => {
            let v = if p { n as i128 } else { len as i128 - n as i128 };
            if v < 0 { 0 } else if v > len as i128 { len } else { v as usize }
        }
    }
}
/// "reading outside yields null": an index is in range iff 0 <= pos < len
pub fn abs_index_spec(i: PosUsize, len: usize) -> Option<usize> {
    let v = if i.0 { i.1 as i128 } else { len as i128 - i.1 as i128 };
    if 0 <= v && v < len as i128 { Some(v as usize) } else { None }
}
pub fn skip_take_spec(start: Option<PosUsize>, end: Option<PosUsize>, len: usize) -> (usize, usize) {
    let from = abs_bound_spec(start, len, 0);
    let upto = abs_bound_spec(end, len, len);
    (from, if upto > from { upto - from } else { 0 })
}

#[kani::proof_for_contract(PosUsize::wrap)]
fn c10_wrap() {
    let p: PosUsize = kani::any();
    let len: usize = kani::any();
    kani::cover!(!p.0 && p.1 > len);
    p.wrap(len);
}

#[kani::proof_for_contract(abs_bound)]
#[kani::stub_verified(PosUsize::wrap)]
fn c10_abs_bound() {
    let i: Option<PosUsize> = kani::any();
    let len: usize = kani::any();
    let default: usize = kani::any();
    kani::cover!(matches!(i, Some(PosUsize(false, n)) if n > len));
    abs_bound(i, len, default);
}

#[kani::proof_for_contract(abs_index)]
#[kani::stub_verified(PosUsize::wrap)]
fn c10_abs_index() {
    let i: PosUsize = kani::any();
    let len: usize = kani::any();
    kani::cover!(i.0 && i.1 >= len);
    abs_index(i, len);
}

#[kani::proof_for_contract(skip_take)]
#[kani::stub_verified(abs_bound)]
fn c10_skip_take() {
    let s: Option<PosUsize> = kani::any();
    let e: Option<PosUsize> = kani::any();
    let len: usize = kani::any();
    skip_take(s..e, len);
}

/// `skip_take_bytes` applies the array model to the byte length (bounded: b.len() <= 8; the
/// function reads nothing but the length).
#[kani::proof]
#[kani::stub_verified(skip_take)]
fn c10_skip_take_bytes() {
    let s: Option<PosUsize> = kani::any();
    let e: Option<PosUsize> = kani::any();
    let buf: [u8; 8] = kani::any();
    let n: usize = kani::any();
    kani::assume(n <= 8);
    let b = &buf[..n];
    let (skip, take) = skip_take_bytes(s..e, b);
    let want = skip_take_spec(s, e, n);
    assert!((skip, take) == want);
    assert!(skip + take <= n);
    kani::cover!(take > 0);
}

/// `Num::as_pos_usize` on machine integers: sign and magnitude, and the type invariant
/// `(false, n) => n >= 1` that `skip_take_chars` relies on (`c - 1`).
#[kani::proof]
fn c10_as_pos_usize_int() {
    let i: isize = kani::any();
    let n = MD::new(Num::Int(i));
    match n.as_pos_usize() {
        Some(PosUsize(p, m)) => {
            assert!(p == (i >= 0));
            assert!(pos_int(p, m) == i as i128);
            assert!(p || m >= 1);
        }
        None => assert!(false),
    }
    let f: f64 = kani::any();
    assert!(MD::new(Num::Float(f)).as_pos_usize().is_none());
    kani::cover!(i == isize::MIN);
}

/// Top level (integers in, positions out): `.[i]` on a container of length `len` reads
/// position `model_pos(i, len)` iff that is inside `0..len`, for every machine integer.
#[kani::proof]
#[kani::stub_verified(abs_index)]
fn c10_index_model() {
    let i: isize = kani::any();
    let len: usize = kani::any();
    let n = MD::new(Num::Int(i));
    let got = n.as_pos_usize().and_then(|p| abs_index(p, len));
    let pos = model_pos(i as i128, len);
    if 0 <= pos && pos < len as i128 {
        assert!(got == Some(pos as usize));
    } else {
        assert!(got.is_none());
    }
    kani::cover!(i < 0 && got.is_some());
    kani::cover!(i < 0 && got.is_none());
}

/// Top level: `.[s:e]` selects `[clip(pos(s)), max(clip(pos(e)), clip(pos(s))))`, null = open.
#[kani::proof]
#[kani::stub_verified(skip_take)]
fn c10_slice_model() {
    let s: Option<isize> = kani::any();
    let e: Option<isize> = kani::any();
    let len: usize = kani::any();
    let conv = |o: Option<isize>| o.map(|i| MD::new(Num::Int(i)).as_pos_usize().unwrap());
    let (skip, take) = skip_take(conv(s)..conv(e), len);
    let clip = |o: Option<isize>, default: i128| -> i128 {
        match o {
            None => default,
            Some(i) => {
                let p = model_pos(i as i128, len);
                if p < 0 { 0 } else if p > len as i128 { len as i128 } else { p }
            }
        }
    };
    let from = clip(s, 0);
    let upto = clip(e, len as i128);
    assert!(skip as i128 == from);
    assert!(take as i128 == if upto > from { upto - from } else { 0 });
    assert!(skip as i128 + take as i128 <= len as i128);
    kani::cover!(take > 0 && s.is_some() && s.unwrap() < 0);
}

// ------------------------------------------------------------------------------------------
// C08: one total order; equal values are interchangeable keys (numeric core)
// ------------------------------------------------------------------------------------------
use crate::num::{verif_float_cmp as float_cmp, verif_float_eq as float_eq};

/// `float_cmp` is a total preorder on non-NaN floats that agrees with IEEE `<` / `==`.
#[kani::proof]
fn c08_float_cmp_order() {
    let a: f64 = kani::any();
    let b: f64 = kani::any();
    let c: f64 = kani::any();
    kani::assume(!a.is_nan() && !b.is_nan() && !c.is_nan());
    let (ab, ba, bc, ac) = (float_cmp(a, b), float_cmp(b, a), float_cmp(b, c), float_cmp(a, c));
    assert!(float_cmp(a, a) == Equal);
    assert!(ab == ba.reverse());
    if ab != Greater && bc != Greater {
        assert!(ac != Greater);
    }
    if ab == Equal && bc == Equal {
        assert!(ac == Equal);
    }
    // agreement with the mathematical order (-inf < finite < +inf, -0 == +0)
    assert!((ab == Less) == (a < b));
    assert!((ab == Equal) == (a == b));
    assert!((ab == Greater) == (a > b));
    assert!(float_eq(a, b) == (ab == Equal));
    kani::cover!(a == 0.0 && b == 0.0 && a.to_bits() != b.to_bits());
    kani::cover!(a.is_infinite() && ab == Less);
}

fn int() -> Num {
    Num::Int(kani::any())
}
fn flt() -> Num {
    Num::Float(kani::any())
}
fn nan(n: &Num) -> bool {
    matches!(n, Num::Float(f) if f.is_nan())
}
/// the property's side condition: integers beyond 2^53 are compared only among integers or
/// against infinities
fn in_domain(a: &Num, b: &Num) -> bool {
    const L: isize = 1 << 53;
    match (a, b) {
        (Num::Int(i), Num::Float(f)) | (Num::Float(f), Num::Int(i)) => (-L <= *i && *i <= L) || f.is_infinite(),
        _ => true,
    }
}
/// mathematical order of two Int/Float numbers in the domain
fn math_cmp(a: &Num, b: &Num) -> Ordering {
    match (a, b) {
        (Num::Int(x), Num::Int(y)) => (*x as i128).cmp(&(*y as i128)),
        (Num::Int(x), Num::Float(f)) => ieee(*x as f64, *f),
        (Num::Float(f), Num::Int(y)) => ieee(*f, *y as f64),
        (Num::Float(x), Num::Float(y)) => ieee(*x, *y),
        _ => unreachable!(),
    }
}
fn ieee(a: f64, b: f64) -> Ordering {
    if a < b { Less } else if a > b { Greater } else { Equal }
}

/// `Num::cmp` / `Num::eq` on a pair: consistent with each other, antisymmetric, and equal to
/// the mathematical order on the property's domain.  (One harness per combination of kinds:
/// a symbolic discriminant would make symbolic execution walk the BigInt / Dec arms.)
fn cmp_pair(a: Num, b: Num) {
    let (a, b) = (MD::new(a), MD::new(b));
    kani::assume(!nan(&a) && !nan(&b));
    let ab = (*a).cmp(&*b);
    let ba = (*b).cmp(&*a);
    assert!(ab == ba.reverse());
    assert!((*a == *b) == (ab == Equal));
    assert!((*a == *b) == (*b == *a));
    assert!((*a).cmp(&*a) == Equal && *a == *a);
    assert!((*a).partial_cmp(&*b) == Some(ab));
    if in_domain(&a, &b) {
        assert!(ab == math_cmp(&a, &b));
    }
    kani::cover!(ab == Equal);
    kani::cover!(ab == Less);
}
#[kani::proof]
fn c08_num_cmp_ii() {
    cmp_pair(int(), int())
}
#[kani::proof]
fn c08_num_cmp_if() {
    cmp_pair(int(), flt())
}
#[kani::proof]
fn c08_num_cmp_fi() {
    cmp_pair(flt(), int())
}
#[kani::proof]
fn c08_num_cmp_ff() {
    cmp_pair(flt(), flt())
}

/// transitivity of `<=` and of `==` over triples of the domain
fn cmp_triple(a: Num, b: Num, c: Num) {
    let (a, b, c) = (MD::new(a), MD::new(b), MD::new(c));
    kani::assume(!nan(&a) && !nan(&b) && !nan(&c));
    kani::assume(in_domain(&a, &b) && in_domain(&b, &c) && in_domain(&a, &c));
    let (ab, bc, ac) = ((*a).cmp(&*b), (*b).cmp(&*c), (*a).cmp(&*c));
    if ab != Greater && bc != Greater {
        assert!(ac != Greater);
    }
    if ab == Equal && bc == Equal {
        assert!(ac == Equal);
    }
    if *a == *b && *b == *c {
        assert!(*a == *c);
    }
    kani::cover!(ab == Less && bc == Less);
}
macro_rules! triples {
    ($($name:ident: $a:ident $b:ident $c:ident;)*) => {$(
        #[kani::proof]
        fn $name() {
            cmp_triple($a(), $b(), $c())
        }
    )*};
}
triples! {
    c08_num_trans_iii: int int int;
    c08_num_trans_iif: int int flt;
    c08_num_trans_ifi: int flt int;
    c08_num_trans_iff: int flt flt;
    c08_num_trans_fii: flt int int;
    c08_num_trans_fif: flt int flt;
    c08_num_trans_ffi: flt flt int;
    c08_num_trans_fff: flt flt flt;
}

/// Hasher that records the bytes written: hash coherence is stated over the byte stream, which
/// is stronger than, and independent of, the hash function (foldhash) behind the object map.
#[derive(Clone, Copy, PartialEq, Eq)]
pub struct Rec {
    buf: [u8; 24],
    n: usize,
}
impl Rec {
    fn new() -> Self {
        Rec { buf: [0; 24], n: 0 }
    }
}
impl core::hash::Hasher for Rec {
    fn finish(&self) -> u64 {
        0
    }
    fn write(&mut self, bytes: &[u8]) {
        let mut i = 0;
        while i < bytes.len() {
            if self.n < 24 {
                self.buf[self.n] = bytes[i];
            }
            self.n += 1;
            i += 1;
        }
    }
}
fn stream(n: &Num) -> Rec {
    let mut h = Rec::new();
    n.hash(&mut h);
    h
}

/// equal numbers are interchangeable keys: `a == b` implies identical hash input streams
fn hash_pair(a: Num, b: Num) {
    let (a, b) = (MD::new(a), MD::new(b));
    kani::assume(!nan(&a) && !nan(&b));
    let (ha, hb) = (stream(&a), stream(&b));
    if *a == *b {
        assert!(ha == hb);
    }
    // `Val::hash` relies on every number's stream starting with a tag < 2
    assert!(ha.n >= 1 && ha.buf[0] < 2);
    assert!(ha.n <= 24);
    kani::cover!(*a == *b);
}
#[kani::proof]
#[kani::unwind(26)]
fn c08_num_hash_ii() {
    hash_pair(int(), int())
}
#[kani::proof]
#[kani::unwind(26)]
fn c08_num_hash_if() {
    hash_pair(int(), flt())
}
#[kani::proof]
#[kani::unwind(26)]
fn c08_num_hash_ff() {
    hash_pair(flt(), flt())
}

// ------------------------------------------------------------------------------------------
// C09: integer arithmetic is exact; operators follow the manual
// ------------------------------------------------------------------------------------------

/// ghost state: the operands `int_or_big` was entered with on the overflow path
static mut GHOST_IOB: Option<(isize, isize, usize)> = None;
/// Stand-in for `num::int_or_big` (its own contract is `c09_int_or_big`): `Some(v)` gives
/// `Int(v)`; on `None` the operands are recorded and a marker value returned, so that no
/// num-bigint code is executed symbolically.
fn int_or_big_ghost<const N: usize>(i: Option<isize>, x: [isize; N], _f: fn([BigInt; N]) -> BigInt) -> Num {
    match i {
        Some(v) => Num::Int(v),
        None => {
            unsafe { GHOST_IOB = Some((x[0], x[N - 1], N)) };
            Num::Float(f64::NAN)
        }
    }
}
fn fits(x: i128) -> bool {
    isize::MIN as i128 <= x && x <= isize::MAX as i128
}
/// `r` is the exact integer `exact` if that fits a machine integer; otherwise the big-integer
/// fall-back was entered with exactly the operands `ops`
fn exact_or_fallback(r: &Num, exact: i128, ops: (isize, isize, usize)) {
    match r {
        Num::Int(z) => assert!(fits(exact) && *z as i128 == exact),
        Num::Float(_) => {
            assert!(!fits(exact));
            assert!(unsafe { GHOST_IOB } == Some(ops));
        }
        _ => assert!(false),
    }
}

#[kani::proof]
#[kani::stub(crate::num::int_or_big, int_or_big_ghost)]
fn c09_int_add() {
    let (x, y): (isize, isize) = kani::any();
    let r = MD::new(Num::Int(x) + Num::Int(y));
    exact_or_fallback(&r, x as i128 + y as i128, (x, y, 2));
    kani::cover!(!fits(x as i128 + y as i128));
}

#[kani::proof]
#[kani::stub(crate::num::int_or_big, int_or_big_ghost)]
fn c09_int_sub() {
    let (x, y): (isize, isize) = kani::any();
    let r = MD::new(Num::Int(x) - Num::Int(y));
    exact_or_fallback(&r, x as i128 - y as i128, (x, y, 2));
    kani::cover!(!fits(x as i128 - y as i128));
}

#[kani::proof]
#[kani::stub(crate::num::int_or_big, int_or_big_ghost)]
fn c09_int_neg() {
    let x: isize = kani::any();
    let r = MD::new(-Num::Int(x));
    exact_or_fallback(&r, -(x as i128), (x, x, 1));
    kani::cover!(x == isize::MIN);
}

/// `*`: routing only (DESIGN C09): the result is `Int(z)` exactly when `checked_mul` gives
/// `Some(z)`, else the fall-back is entered with the same operands.  That `checked_mul` is the
/// exact product is `core`'s contract (a 64x64->128 multiplier equivalence is SAT-hard).
#[kani::proof]
#[kani::stub(crate::num::int_or_big, int_or_big_ghost)]
fn c09_int_mul_routing() {
    let (x, y): (isize, isize) = kani::any();
    let r = MD::new(Num::Int(x) * Num::Int(y));
    match (&*r, x.checked_mul(y)) {
        (Num::Int(z), Some(w)) => assert!(*z == w),
        (Num::Float(_), None) => assert!(unsafe { GHOST_IOB } == Some((x, y, 2))),
        _ => assert!(false),
    }
    kani::cover!(x.checked_mul(y).is_none());
}

/// `Int % Int`: an integer, equal to the primitive truncated remainder `x % y`, with the one
/// case the primitive cannot compute (`MIN % -1`, which overflows) mapped to the mathematical
/// value 0; no panic for any non-zero divisor.  Discharged by cvc5 (both sides are the same
/// bvsrem term; the SAT encoding of two dividers does not finish, and neither does the
/// equivalence with a 128-bit divider of an i128 spec).  The primitive's own exactness is
/// `core`'s contract, as for `checked_mul`; `c09_int_rem_bounds` adds what is cheap to state.
#[kani::proof]
#[kani::solver(cvc5)]
fn c09_int_rem() {
    let (x, y): (isize, isize) = kani::any();
    kani::assume(y != 0);
    kani::cover!(x == isize::MIN && y == -1);
    let r = MD::new(Num::Int(x) % Num::Int(y));
    let want = if y == -1 { 0 } else { x % y };
    match &*r {
        Num::Int(z) => assert!(*z == want),
        _ => assert!(false),
    }
}

/// the remainder is smaller in magnitude than the divisor and has the sign of the dividend
#[kani::proof]
fn c09_int_rem_bounds() {
    let (x, y): (isize, isize) = kani::any();
    kani::assume(y != 0);
    let r = MD::new(Num::Int(x) % Num::Int(y));
    match &*r {
        Num::Int(z) => {
            let (z, x, y) = (*z as i128, x as i128, y as i128);
            assert!(z.abs() < y.abs());
            assert!(z == 0 || (z < 0) == (x < 0));
        }
        _ => assert!(false),
    }
}

/// The guard `Val::rem` uses for "remainder by zero": `y == Num::Int(0)` holds exactly for the
/// zero divisors among machine integers and floats.
#[kani::proof]
fn c09_zero_guard() {
    let i: isize = kani::any();
    let f: f64 = kani::any();
    let zero = MD::new(Num::Int(0));
    assert!((*MD::new(Num::Int(i)) == *zero) == (i == 0));
    assert!((*MD::new(Num::Float(f)) == *zero) == (f == 0.0));
}

fn same_float(a: f64, b: f64) -> bool {
    a.to_bits() == b.to_bits() || (a.is_nan() && b.is_nan())
}

/// Result kinds: an operation with a float operand, and every division, yields a float that
/// is bit for bit the IEEE result on the operands converted with `as f64`, in the operand
/// order written (division by zero included).  One harness per kind combination and operator;
/// discharged by cvc5 (its FP theory sees that both sides are the same term; the SAT encoding
/// of two dividers does not finish and two multipliers take minutes).  Float `%` (fmod): see `c09_*_rem`.
macro_rules! ieee_ops {
    ($($(#[$attr:meta])* $name:ident: ($lt:ty, $rt:ty) $op:tt;)*) => {$(
        #[kani::proof]
        $(#[$attr])*
        fn $name() {
            let (x, y): ($lt, $rt) = kani::any();
            let got = MD::new(mk(x) $op mk(y));
            let want = (x as f64) $op (y as f64);
            match &*got {
                Num::Float(z) => assert!(same_float(*z, want)),
                _ => assert!(false),
            }
        }
    )*};
}
trait Mk {
    fn mk(self) -> Num;
}
impl Mk for isize {
    fn mk(self) -> Num {
        Num::Int(self)
    }
}
impl Mk for f64 {
    fn mk(self) -> Num {
        Num::Float(self)
    }
}
fn mk<T: Mk>(x: T) -> Num {
    x.mk()
}
ieee_ops! {
    #[kani::solver(cvc5)] c09_ff_add: (f64, f64) +;
    #[kani::solver(cvc5)] c09_ff_sub: (f64, f64) -;
    #[kani::solver(cvc5)] c09_ff_mul: (f64, f64) *;
    #[kani::solver(cvc5)] c09_ff_div: (f64, f64) /;
    #[kani::solver(cvc5)] c09_if_add: (isize, f64) +;
    #[kani::solver(cvc5)] c09_if_sub: (isize, f64) -;
    #[kani::solver(cvc5)] c09_if_mul: (isize, f64) *;
    #[kani::solver(cvc5)] c09_if_div: (isize, f64) /;
    #[kani::solver(cvc5)] c09_fi_add: (f64, isize) +;
    #[kani::solver(cvc5)] c09_fi_sub: (f64, isize) -;
    #[kani::solver(cvc5)] c09_fi_mul: (f64, isize) *;
    #[kani::solver(cvc5)] c09_fi_div: (f64, isize) /;
    #[kani::solver(cvc5)] c09_ii_div: (isize, isize) /;
}

/// float remainder: the result is a float (never an integer, never a panic) for every operand
/// pair with a float on either side; the value is `fmod`, whose bit-level encoding neither
/// back end finishes, so operand order is checked on the bounded domain of `c09_rem_order`.
#[kani::proof]
fn c09_rem_kind() {
    let (x, f, g): (isize, f64, f64) = kani::any();
    assert!(matches!(&*MD::new(Num::Int(x) % Num::Float(f)), Num::Float(_)));
    assert!(matches!(&*MD::new(Num::Float(f) % Num::Int(x)), Num::Float(_)));
    assert!(matches!(&*MD::new(Num::Float(f) % Num::Float(g)), Num::Float(_)));
}

#[kani::proof]
fn c09_neg_float() {
    let a: f64 = kani::any();
    let n = MD::new(-Num::Float(a));
    assert!(matches!(&*n, Num::Float(z) if same_float(*z, -a)));
}

/// The observers integer consumers use give the value-level answer for machine integers and
/// floats (this is also `Val`'s conformance to the `jaq_std::ValT` observer contract used by
/// the trait-contract obligations in jaq-std: `as_isize` is `Some` only for integers).
#[kani::proof]
fn c09_observers() {
    let i: isize = kani::any();
    let f: f64 = kani::any();
    let (ni, nf) = (MD::new(Num::Int(i)), MD::new(Num::Float(f)));
    assert!(ni.is_int() && ni.as_isize() == Some(i) && ni.as_f64().to_bits() == (i as f64).to_bits());
    assert!(!nf.is_int() && nf.as_isize().is_none() && same_float(nf.as_f64(), f));
    use jaq_std::ValT as _;
    let (vi, vf) = (MD::new(Val::Num(Num::Int(i))), MD::new(Val::Num(Num::Float(f))));
    assert!(vi.is_int() && vi.as_isize() == Some(i));
    assert!(!vf.is_int() && vf.as_isize().is_none());
    let others = [MD::new(Val::Null), MD::new(Val::Bool(kani::any()))];
    assert!(!others[0].is_int() && others[0].as_isize().is_none() && others[0].as_f64().is_none());
    assert!(!others[1].is_int() && others[1].as_isize().is_none() && others[1].as_f64().is_none());
}

/// `Num::length` (absolute value) never panics and is the exact absolute value
#[kani::proof]
#[kani::stub(crate::num::int_or_big, int_or_big_ghost)]
fn c05_num_length() {
    let i: isize = kani::any();
    let r = MD::new(MD::new(Num::Int(i)).length());
    let exact = if i < 0 { -(i as i128) } else { i as i128 };
    match &*r {
        Num::Int(z) => assert!(*z as i128 == exact),
        Num::Float(_) => assert!(!fits(exact)),
        Num::BigInt(_) => assert!(!fits(exact)),
        _ => assert!(false),
    }
    let f: f64 = kani::any();
    let rf = MD::new(MD::new(Num::Float(f)).length());
    assert!(matches!(&*rf, Num::Float(z) if same_float(*z, f.abs())));
}

// ------------------------------------------------------------------------------------------
// Point obligations: the big-integer arms at concrete boundary values.  num-bigint cannot be
// executed symbolically (DESIGN.md 2), but with concrete operands CBMC simply runs it; the two
// x86 carry intrinsics it uses are given their architectural definition.
// ------------------------------------------------------------------------------------------
pub unsafe fn addcarry_def(c_in: u8, a: u64, b: u64, out: &mut u64) -> u8 {
    let s = a as u128 + b as u128 + (c_in != 0) as u128;
    *out = s as u64;
    (s >> 64) as u8
}
pub unsafe fn subborrow_def(c_in: u8, a: u64, b: u64, out: &mut u64) -> u8 {
    let s = (a as i128) - (b as i128) - ((c_in != 0) as i128);
    *out = s as u64;
    (s < 0) as u8
}
fn big(x: i128) -> Num {
    Num::big_int(BigInt::from(x))
}
const MAXI: i128 = isize::MAX as i128;
const MINI: i128 = isize::MIN as i128;
/// value of an integer `Num` (both representations)
fn int_value(n: &Num) -> Option<i128> {
    match n {
        Num::Int(i) => Some(*i as i128),
        Num::BigInt(b) => b.to_i128(),
        _ => None,
    }
}

/// C08 points: ordering / equality / hashing across Int, BigInt and Float representations
#[kani::proof]
#[kani::unwind(26)]
fn c08_big_points() {
    // a big integer against infinities and floats, in both argument orders
    let b = MD::new(big(100000000000000000000));
    let (inf, ninf) = (MD::new(Num::Float(f64::INFINITY)), MD::new(Num::Float(f64::NEG_INFINITY)));
    assert!((*inf).cmp(&*b) == Greater && (*b).cmp(&*inf) == Less);
    assert!((*ninf).cmp(&*b) == Less && (*b).cmp(&*ninf) == Greater);
    assert!(*b != *inf && *inf != *b);
    // the same integer in three representations: equal, ordered Equal, hashing alike
    let (i5, b5, f5) = (MD::new(Num::Int(5)), MD::new(big(5)), MD::new(Num::Float(5.0)));
    assert!(*i5 == *b5 && *b5 == *i5 && *b5 == *f5 && *f5 == *b5);
    assert!((*i5).cmp(&*b5) == Equal && (*b5).cmp(&*i5) == Equal && (*b5).cmp(&*f5) == Equal && (*f5).cmp(&*b5) == Equal);
    assert!(stream(&i5) == stream(&b5) && stream(&b5) == stream(&f5));
    let (z, bz) = (MD::new(Num::Int(0)), MD::new(big(0)));
    assert!(*z == *bz && stream(&z) == stream(&bz));
    // big integers beyond the machine range: ordered among themselves and against machine integers
    let (p, q) = (MD::new(big(MAXI + 1)), MD::new(big(MAXI + 2)));
    let (mx, mn, bmn) = (MD::new(Num::Int(isize::MAX)), MD::new(Num::Int(isize::MIN)), MD::new(big(MINI - 1)));
    assert!((*p).cmp(&*q) == Less && (*q).cmp(&*p) == Greater && (*p).cmp(&*p) == Equal);
    assert!((*mx).cmp(&*p) == Less && (*p).cmp(&*mx) == Greater && *mx != *p);
    assert!((*bmn).cmp(&*mn) == Less && (*mn).cmp(&*bmn) == Greater);
    assert!((*bmn).cmp(&*p) == Less);
    // a small float against a big-integer one (float left / right)
    let (half, b1) = (MD::new(Num::Float(0.5)), MD::new(big(1)));
    assert!((*half).cmp(&*b1) == Less && (*b1).cmp(&*half) == Greater);
}

/// C09 / C10: the observers integer consumers use give the value-level answer for **every big
/// integer up to 128 bits** (num-bigint's conversions run symbolically; only its arithmetic does
/// not): `is_int`, `as_isize` (Some iff it fits), `as_pos_usize` (sign and magnitude, zero is
/// not negative, None beyond usize), so that equal integers behave identically however stored.
#[kani::proof]
#[kani::unwind(6)]
fn c09_big_observers() {
    let x: i128 = kani::any();
    kani::cover!(x == 0);
    kani::cover!(x > isize::MAX as i128 && x <= usize::MAX as i128);
    let b = MD::new(big(x));
    assert!(b.is_int());
    assert!(b.as_isize() == if fits(x) { Some(x as isize) } else { None });
    match b.as_pos_usize() {
        Some(PosUsize(p, m)) => {
            assert!(p == (x >= 0));
            assert!(pos_int(p, m) == x);
            assert!(p || m >= 1);
        }
        None => assert!(x > usize::MAX as i128 || x < -(usize::MAX as i128)),
    }
    // a big integer that happens to fit agrees with the machine integer on every observer
    if fits(x) {
        let n = MD::new(Num::Int(x as isize));
        assert!(matches!((n.as_pos_usize(), b.as_pos_usize()), (Some(PosUsize(p, m)), Some(PosUsize(q, k))) if p == q && m == k));
    }
}

/// `Num::from_integral` (array lengths, CBOR arguments): a machine integer when the value fits,
/// else the big integer of the same value - for every u64 and every i128
#[kani::proof]
#[kani::unwind(6)]
fn c09_from_integral() {
    let u: u64 = kani::any();
    let r = MD::new(Num::from_integral(u));
    assert!(int_value(&r) == Some(u as i128));
    assert!(matches!(&*r, Num::Int(_)) == (u <= isize::MAX as u64));
    let s: i128 = kani::any();
    let r = MD::new(Num::from_integral(s));
    assert!(int_value(&r) == Some(s));
    assert!(matches!(&*r, Num::Int(_)) == fits(s));
    let z: usize = kani::any();
    let v = MD::new(Val::from(z));
    assert!(matches!(&*v, Val::Num(n) if int_value(n) == Some(z as i128)));
}

/// points that need more than conversions: `as_f64` and `length` of big integers
#[kani::proof]
#[kani::unwind(8)]
fn c09_big_points() {
    let (b5, bm1) = (MD::new(big(5)), MD::new(big(-1)));
    assert!(b5.as_f64() == 5.0 && bm1.as_f64() == -1.0);
    let n = MD::new(big(MINI - 1));
    assert!(int_value(&MD::new(bm1.length())) == Some(1));
    assert!(int_value(&MD::new(n.length())) == Some(-(MINI - 1)));
    let huge = MD::new(big(1i128 << 70));
    assert!(huge.as_pos_usize().is_none() && huge.as_isize().is_none());
}

/// C09 points: which big-integer operator the fall-back applies, and operand order in the
/// mixed Int / BigInt arms
#[kani::proof]
#[kani::unwind(8)]
#[kani::stub(core::arch::x86_64::_addcarry_u64, addcarry_def)]
#[kani::stub(core::arch::x86_64::_subborrow_u64, subborrow_def)]
fn c09_big_arith() {
    let v = |n: Num| int_value(&MD::new(n));
    // overflowing machine-integer operations take the exact big-integer value
    assert!(v(Num::Int(isize::MAX) + Num::Int(1)) == Some(MAXI + 1));
    assert!(v(Num::Int(isize::MIN) - Num::Int(1)) == Some(MINI - 1));
    assert!(v(Num::Int(isize::MIN) + Num::Int(-1)) == Some(MINI - 1));
    assert!(v(-Num::Int(isize::MIN)) == Some(-MINI));
    assert!(v(Num::Int(isize::MAX) - Num::Int(-1)) == Some(MAXI + 1));
    // mixed representations, both operand orders
    assert!(v(Num::Int(1) - big(MAXI + 1)) == Some(1 - (MAXI + 1)));
    assert!(v(big(MAXI + 1) - Num::Int(1)) == Some(MAXI));
    assert!(v(Num::Int(1) + big(MAXI + 1)) == Some(MAXI + 2));
    assert!(v(big(MAXI + 1) + Num::Int(1)) == Some(MAXI + 2));
    assert!(v(big(MAXI + 1) - big(MAXI + 1)) == Some(0));
    assert!(v(-big(MAXI + 1)) == Some(-(MAXI + 1)));
}

/// C09 points: the fall-back of `*` applies multiplication, operands in either representation
/// (the cheap points only: `isize::MAX * 2` and products with a 2^63-sized factor take minutes or
/// exhaust memory; remainders reach an inline-assembly division in num-bigint, unsupported)
#[kani::proof]
#[kani::unwind(8)]
#[kani::stub(core::arch::x86_64::_addcarry_u64, addcarry_def)]
#[kani::stub(core::arch::x86_64::_subborrow_u64, subborrow_def)]
fn c09_big_mul_points() {
    let v = |n: Num| int_value(&MD::new(n));
    assert!(v(Num::Int(isize::MIN) * Num::Int(-1)) == Some(-MINI));
    assert!(v(Num::Int(3) * big(5)) == Some(15));
    assert!(v(big(5) * Num::Int(-3)) == Some(-15));
    assert!(v(big(-5) * big(-3)) == Some(15));
}

// ------------------------------------------------------------------------------------------
// C10 / C13: character positions in text strings
// ------------------------------------------------------------------------------------------
/// `skip_take_chars` applies the one position model to the *character* count of the text (as
/// bstr decodes it: every invalid byte sequence is one character) and returns byte offsets of
/// character boundaries: `(B[from], B[from + take] - B[from])` where `B` lists the boundaries
/// and `(from, take)` is the array model on the number of characters.  So slicing text never
/// splits a character and never leaves the string.  Precondition (type invariant of PosUsize,
/// established by `as_pos_usize`, O-C10-posusize): a negative position has magnitude >= 1.
fn skip_take_chars_model<const N: usize>() {
    let buf: [u8; N] = kani::any();
    let n: usize = kani::any();
    kani::assume(n <= N);
    let b = &buf[..n];
    let s: Option<PosUsize> = kani::any();
    let e: Option<PosUsize> = kani::any();
    kani::assume(s.map_or(true, |p| p.0 || p.1 >= 1) && e.map_or(true, |p| p.0 || p.1 >= 1));
    // boundaries
    let mut bounds = [0usize; 5];
    let mut nchars = 0;
    for (start, _end, _c) in b.char_indices() {
        bounds[nchars] = start;
        nchars += 1;
    }
    bounds[nchars] = n;
    kani::cover!(nchars < n);
    kani::cover!(matches!(s, Some(PosUsize(false, _))) && nchars == 2);
    let (from, take) = skip_take_spec(s, e, nchars);
    let (skip_b, take_b) = skip_take_chars(s..e, b);
    assert!(skip_b == bounds[from]);
    assert!(take_b == bounds[from + take] - bounds[from]);
    assert!(skip_b + take_b <= n);
}
#[kani::proof]
#[kani::unwind(5)]
fn c10_skip_take_chars_2() {
    skip_take_chars_model::<2>()
}
#[kani::proof]
#[kani::unwind(6)]
fn c10_skip_take_chars_3() {
    skip_take_chars_model::<3>()
}

// ------------------------------------------------------------------------------------------
// C07: how each of the 256 byte values is written inside a JSON string
// ------------------------------------------------------------------------------------------
/// recording `fmt::Write`
struct WBuf {
    b: [u8; 8],
    n: usize,
}
impl core::fmt::Write for WBuf {
    fn write_str(&mut self, s: &str) -> core::fmt::Result {
        let bytes = s.as_bytes();
        let mut i = 0;
        while i < bytes.len() {
            assert!(self.n < 8);
            self.b[self.n] = bytes[i];
            self.n += 1;
            i += 1;
        }
        Ok(())
    }
}
fn hex(d: u8) -> u8 {
    if d < 10 { b'0' + d } else { b'a' + d - 10 }
}
/// RFC 8259 section 7: `"` and `\` and the control characters U+0000..U+001F must be escaped,
/// with the two-character forms `\" \\ \b \f \n \r \t` and `\u00XX` otherwise; every other
/// character may be written as itself.  jaq additionally writes DEL as `\u007f`, and in byte
/// strings (XJON) every byte outside printable ASCII as `\xXX`.
fn escape_spec(c: u8, text: bool, out: &mut [u8; 8]) -> usize {
    let two = |out: &mut [u8; 8], x: u8| {
        out[0] = b'\\';
        out[1] = x;
        2
    };
    match c {
        0x08 => two(out, b'b'),
        0x0c => two(out, b'f'),
        b'\t' => two(out, b't'),
        b'\n' => two(out, b'n'),
        b'\r' => two(out, b'r'),
        b'\\' => two(out, b'\\'),
        b'"' => two(out, b'"'),
        0x00..=0x1f | 0x7f..=0xff => {
            if text {
                out[..4].copy_from_slice(b"\\u00");
                out[4] = hex(c >> 4);
                out[5] = hex(c & 15);
                6
            } else {
                out[..2].copy_from_slice(b"\\x");
                out[2] = hex(c >> 4);
                out[3] = hex(c & 15);
                4
            }
        }
        c => {
            out[0] = c;
            1
        }
    }
}
/// The real `write_byte!` with the fall-back expression its two callers pass (`write_utf8!`:
/// `\u{:04x}`; `write_bytes!`: `\x{:02x}` - transcribed from those macros) writes exactly the
/// escape the spec gives, for one concrete byte.
fn write_byte_case(c: u8, text: bool) {
    use core::fmt::Write;
    let mut buf = WBuf { b: [0; 8], n: 0 };
    let w = &mut buf;
    let r = if text {
        let last = c;
        crate::write_byte!(w, c, write!(w, "\\u{last:04x}"))
    } else {
        crate::write_byte!(w, c, write!(w, "\\x{c:02x}"))
    };
    assert!(r.is_ok());
    let mut want = [0u8; 8];
    let n = escape_spec(c, text, &mut want);
    assert!(buf.n == n);
    let mut i = 0;
    while i < n {
        assert!(buf.b[i] == want[i]);
        i += 1;
    }
}
/// 16 consecutive byte values per harness (core::fmt runs concretely; about 5 s per byte)
fn write_byte_block(block: u8) {
    let mut k = 0u8;
    while k < 16 {
        let c = block * 16 + k;
        // `write_utf8!` only passes the bytes it calls special to `write_byte!`
        if matches!(c, 0x00..=0x1F | b'\\' | b'"' | 0x7F) {
            write_byte_case(c, true);
        }
        write_byte_case(c, false);
        k += 1;
    }
}
macro_rules! write_byte_blocks {
    ($($name:ident: $b:expr;)*) => {$(
        #[kani::proof]
        #[kani::unwind(18)]
        fn $name() {
            write_byte_block($b)
        }
    )*};
}
write_byte_blocks! {
    c07_write_byte_0: 0; c07_write_byte_1: 1; c07_write_byte_2: 2; c07_write_byte_3: 3;
    c07_write_byte_4: 4; c07_write_byte_5: 5; c07_write_byte_6: 6; c07_write_byte_7: 7;
    c07_write_byte_8: 8; c07_write_byte_9: 9; c07_write_byte_a: 10; c07_write_byte_b: 11;
    c07_write_byte_c: 12; c07_write_byte_d: 13; c07_write_byte_e: 14; c07_write_byte_f: 15;
}

// ------------------------------------------------------------------------------------------
// C09: the contract of `int_or_big` itself (the C09 harnesses above replace it by a ghost stub)
// ------------------------------------------------------------------------------------------
static mut GHOST_F: Option<(i128, i128)> = None;
fn f2(x: [BigInt; 2]) -> BigInt {
    unsafe { GHOST_F = Some((x[0].to_i128().unwrap(), x[1].to_i128().unwrap())) };
    core::mem::forget(x);
    BigInt::from(7)
}
fn f1(x: [BigInt; 1]) -> BigInt {
    unsafe { GHOST_F = Some((x[0].to_i128().unwrap(), 0)) };
    core::mem::forget(x);
    BigInt::from(7)
}
/// `int_or_big(Some(v), ..)` is `Int(v)` and does not call the fall-back; `int_or_big(None, xs,
/// f)` calls `f` with big integers equal to `xs`, in order, and returns its result as a big
/// integer - for all machine-integer operands (num-bigint's conversions run symbolically; its
/// arithmetic does not and is not reached here)
#[kani::proof]
#[kani::unwind(6)]
fn c09_int_or_big() {
    let (x, y): (isize, isize) = kani::any();
    let i: Option<isize> = kani::any();
    kani::cover!(i.is_none() && x == isize::MIN);
    let r = MD::new(crate::num::verif_int_or_big(i, [x, y], f2));
    match i {
        Some(v) => assert!(matches!(&*r, Num::Int(z) if *z == v) && unsafe { GHOST_F }.is_none()),
        None => {
            assert!(unsafe { GHOST_F } == Some((x as i128, y as i128)));
            assert!(matches!(&*r, Num::BigInt(b) if b.to_i128() == Some(7)));
        }
    }
    unsafe { GHOST_F = None };
    let r1 = MD::new(crate::num::verif_int_or_big(None, [x], f1));
    assert!(unsafe { GHOST_F } == Some((x as i128, 0)));
    assert!(matches!(&*r1, Num::BigInt(b) if b.to_i128() == Some(7)));
}

/// recording `std::io::Write` (the flavour `to_json` and the CLI use)
struct IoBuf {
    b: [u8; 12],
    n: usize,
}
impl std::io::Write for IoBuf {
    fn write(&mut self, bytes: &[u8]) -> std::io::Result<usize> {
        let mut i = 0;
        while i < bytes.len() {
            assert!(self.n < 12);
            self.b[self.n] = bytes[i];
            self.n += 1;
            i += 1;
        }
        Ok(bytes.len())
    }
    fn flush(&mut self) -> std::io::Result<()> {
        Ok(())
    }
}
/// The whole `write_utf8!` macro (its `is_special` predicate, the splitting, `write_byte!`) on
/// the one-byte text string `[c]`: quote, the escape the spec requires for `c` or `c` itself,
/// quote.  One byte per harness (a block of 16 exceeds 800 s): the boundaries of the predicate.
fn write_utf8_one(c: u8) {
    use std::io::Write;
    let mut buf = IoBuf { b: [0; 12], n: 0 };
    let s: &[u8] = &[c];
    let r: std::io::Result<()> = {
        let w = &mut buf;
        (|| crate::write_utf8!(w, s, |part: &[u8]| w.write_all(part)))()
    };
    let ok = r.is_ok();
    core::mem::forget(r);
    assert!(ok);
    let mut want = [0u8; 8];
    let n = if !matches!(c, 0x00..=0x1F | b'\\' | b'"' | 0x7F) {
        want[0] = c;
        1
    } else {
        escape_spec(c, true, &mut want)
    };
    assert!(buf.n == n + 2 && buf.b[0] == b'"' && buf.b[n + 1] == b'"');
    let mut i = 0;
    while i < n {
        assert!(buf.b[1 + i] == want[i]);
        i += 1;
    }
}
macro_rules! write_utf8_bytes {
    ($($name:ident: $c:expr;)*) => {$(
        #[kani::proof]
        #[kani::unwind(14)]
        fn $name() {
            write_utf8_one($c)
        }
    )*};
}
write_utf8_bytes! {
    c07_write_utf8_00: 0x00; c07_write_utf8_1f: 0x1f; c07_write_utf8_20: 0x20; c07_write_utf8_22: 0x22;
    c07_write_utf8_5c: 0x5c; c07_write_utf8_7e: 0x7e; c07_write_utf8_7f: 0x7f; c07_write_utf8_80: 0x80;
}

// ------------------------------------------------------------------------------------------
// C08: big integers among themselves and against infinities, for every value up to 128 bits
// (thorough tier: 7-8 minutes each).  Anything that goes through `BigInt::to_f64` on a symbolic
// value (hashing, comparison with finite floats, `as_f64`) is *not* decidable here: CBMC models
// the `powi` it uses as an unconstrained float, which yields spurious failures.
// ------------------------------------------------------------------------------------------
#[kani::proof]
#[kani::unwind(20)]
fn c08_big_cmp_big() {
    let (x, y): (i128, i128) = kani::any();
    let (a, b) = (MD::new(big(x)), MD::new(big(y)));
    assert!((*a).cmp(&*b) == x.cmp(&y));
    assert!((*a == *b) == (x == y));
}
#[kani::proof]
#[kani::unwind(20)]
fn c08_big_cmp_inf() {
    let x: i128 = kani::any();
    let f: f64 = kani::any();
    kani::assume(f.is_infinite());
    let (b, n) = (MD::new(big(x)), MD::new(Num::Float(f)));
    let want = if f > 0.0 { Less } else { Greater };
    assert!((*b).cmp(&*n) == want && (*n).cmp(&*b) == want.reverse());
    assert!(*b != *n && *n != *b);
}

/// `bigint_to_int_saturated` (string repetition by a big integer): the value clamped into the
/// machine-integer range, for every big integer up to 128 bits
#[kani::proof]
#[kani::unwind(6)]
fn c09_bigint_saturated() {
    let x: i128 = kani::any();
    kani::cover!(x > MAXI);
    kani::cover!(x < MINI);
    let b = BigInt::from(x);
    let got = bigint_to_int_saturated(&b);
    core::mem::forget(b);
    let want = if x > MAXI { isize::MAX } else if x < MINI { isize::MIN } else { x as isize };
    assert!(got == want);
}

// ------------------------------------------------------------------------------------------
// C10 / C02: which position function each container's slice accessor uses, and that it returns
// exactly the part the position function selects.  Modular: `skip_take_chars` / `skip_take_bytes` /
// `skip_take` are replaced by ghost stubs that record who was called and return an arbitrary
// in-range (skip, take); their own contracts are O-C10-chars*, O-C10-skiptake*.  Container
// values are concrete (symbolic `Val`s do not fit CBMC): one per kind.
// ------------------------------------------------------------------------------------------
static mut POS_FN: u8 = 0;
static mut POS_RET: (usize, usize) = (0, 0);
fn ghost_chars(_r: val::Range<PosUsize>, _b: &[u8]) -> (usize, usize) {
    unsafe {
        POS_FN = 1;
        POS_RET
    }
}
fn ghost_bytes(_r: val::Range<PosUsize>, _b: &[u8]) -> (usize, usize) {
    unsafe {
        POS_FN = 2;
        POS_RET
    }
}
/// `.[a:b]` (read) on a text string asks `skip_take_chars`, on a byte string `skip_take_bytes`,
/// and returns exactly the part the position function selects (here: skip 1, take 2 of the 4
/// bytes "a\xc3\xa4b"; a symbolic (skip, take) or all kinds in one harness exceed 600 s)
#[kani::proof]
#[kani::unwind(8)]
#[kani::stub(crate::skip_take_chars, ghost_chars)]
#[kani::stub(crate::skip_take_bytes, ghost_bytes)]
fn c10_range_dispatch_text() {
    use jaq_core::ValT as _;
    unsafe {
        POS_RET = (1, 2);
        POS_FN = 0;
    }
    let (s, e) = (MD::new(Val::Num(Num::Int(1))), MD::new(Val::Num(Num::Int(2))));
    let r = MD::new(Val::utf8_str(Vec::from(*b"a\xc3\xa4b")).range(Some(&*s)..Some(&*e)));
    assert!(unsafe { POS_FN } == 1);
    assert!(matches!(&*r, Ok(Val::TStr(b)) if &b[..] == b"\xc3\xa4"));
}
#[kani::proof]
#[kani::unwind(8)]
#[kani::stub(crate::skip_take_chars, ghost_chars)]
#[kani::stub(crate::skip_take_bytes, ghost_bytes)]
fn c10_range_dispatch_bytes() {
    use jaq_core::ValT as _;
    unsafe {
        POS_RET = (1, 2);
        POS_FN = 0;
    }
    let (s, e) = (MD::new(Val::Num(Num::Int(1))), MD::new(Val::Num(Num::Int(2))));
    let r = MD::new(Val::byte_str(Vec::from(*b"a\xc3\xa4b")).range(Some(&*s)..Some(&*e)));
    assert!(unsafe { POS_FN } == 2);
    assert!(matches!(&*r, Ok(Val::BStr(b)) if &b[..] == b"\xc3\xa4"));
}

// ------------------------------------------------------------------------------------------
// C08 / C10: a few `Val`-level facts at concrete points (the arms that do not reach index maps,
// string searchers or big-integer division execute concretely in seconds)
// ------------------------------------------------------------------------------------------
fn val_stream(v: &Val) -> Rec {
    let mut h = Rec::new();
    v.hash(&mut h);
    h
}
/// a text string and a byte string with equal bytes are equal, ordered Equal and hash alike
/// ("interchangeable as object keys"); different bytes order bytewise in both directions
#[kani::proof]
#[kani::unwind(26)]
fn c08_val_text_bytes_points() {
    let t = MD::new(Val::utf8_str(Vec::from(*b"a")));
    let b = MD::new(Val::byte_str(Vec::from(*b"a")));
    assert!(*t == *b && *b == *t);
    assert!((*t).cmp(&*b) == Equal && (*b).cmp(&*t) == Equal);
    assert!(val_stream(&t) == val_stream(&b));
    let c = MD::new(Val::byte_str(Vec::from(*b"b")));
    assert!((*t).cmp(&*c) == Less && (*c).cmp(&*t) == Greater && *t != *c);
}
/// the documented kind sequence null < false < true < numbers < strings < arrays on one
/// representative per kind (49 ordered pairs), with `==` holding only on the diagonal
#[kani::proof]
#[kani::unwind(26)]
fn c08_val_kind_order_points() {
    let vs = [
        MD::new(Val::Null),
        MD::new(Val::Bool(false)),
        MD::new(Val::Bool(true)),
        MD::new(Val::Num(Num::Int(-5))),
        MD::new(Val::Num(Num::Float(f64::INFINITY))),
        MD::new(Val::utf8_str(Vec::new())),
        MD::new(Val::Arr(Rc::new(Vec::new()))),
    ];
    let mut i = 0;
    while i < 7 {
        let mut j = 0;
        while j < 7 {
            assert!((*vs[i]).cmp(&*vs[j]) == i.cmp(&j));
            assert!((*vs[i] == *vs[j]) == (i == j));
            j += 1;
        }
        i += 1;
    }
}
/// `bytes_splice(b, skip, take, r)` leaves `old[..skip] ++ r ++ old[skip + take..]` - growing,
/// shrinking, inserting and deleting - for every (skip, take) inside a 4-byte buffer and every
/// replacement length 0..=3 (enumerated concretely; symbolic positions exceed 400 s).
/// Precondition `skip + take <= len` is what `skip_take*` guarantee (O-C10-skiptake, -chars*).
#[kani::proof]
#[kani::unwind(8)]
fn c10_bytes_splice_enum() {
    let content = *b"abcd";
    let rep = *b"XYZ";
    let mut skip = 0;
    while skip <= 4 {
        let mut take = 0;
        while take <= 4 - skip {
            let mut rn = 0;
            while rn <= 3 {
                let mut b = BytesMut::from(&content[..]);
                bytes_splice(&mut b, skip, take, &rep[..rn]);
                assert!(b.len() == 4 - take + rn);
                let mut i = 0;
                while i < b.len() {
                    let want = if i < skip { content[i] } else if i < skip + rn { rep[i - skip] } else { content[i - rn + take] };
                    assert!(b[i] == want);
                    i += 1;
                }
                core::mem::forget(b);
                rn += 1;
            }
            take += 1;
        }
        skip += 1;
    }
}

// ------------------------------------------------------------------------------------------
// C10: the array and byte-string accessors apply the position model to the right length
// (the real `Val::index_opt` / `Val::range` with the real `skip_take*`; containers and positions
// enumerated concretely, which is the property's own quantifier on a smaller box)
// ------------------------------------------------------------------------------------------
/// a 3-element array: `.[i]` for every i in -5..=5 reads position (i >= 0 ? i : len + i)
/// iff it is inside, else yields nothing (null)
#[kani::proof]
#[kani::unwind(14)]
fn c10_read_array_index() {
    let mut len = 3usize;
    while len <= 3 {
        let mut i: isize = -5;
        while i <= 5 {
            let items: Vec<Val> = (0..len).map(|k| Val::Num(Num::Int(10 + k as isize))).collect();
            let a = Val::Arr(Rc::new(items));
            let idx = MD::new(Val::Num(Num::Int(i)));
            let r = MD::new(a.index_opt(&*idx));
            let pos = if i >= 0 { i } else { len as isize + i };
            match &*r {
                Ok(Some(Val::Num(Num::Int(x)))) => assert!(0 <= pos && (pos as usize) < len && *x == 10 + pos),
                Ok(None) => assert!(!(0 <= pos && (pos as usize) < len)),
                _ => assert!(false),
            }
            i += 1;
        }
        len += 1;
    }
}
/// byte strings: `.[i]` reads the byte at the model position (as a number), for a 3-byte
/// string and i in {-1, 1, 3}: last byte through a negative index, a continuation byte of a
/// multi-byte sequence, just outside (the full range -5..=5 exhausts CBMC's memory)
#[kani::proof]
#[kani::unwind(14)]
fn c10_read_bytes_index() {
    let idxs: [isize; 3] = [-1, 1, 3];
    let mut k = 0;
    while k < 3 {
        let i = idxs[k];
        let b = Val::byte_str(Vec::from(*b"\x07\xc3\xa4"));
        let idx = MD::new(Val::Num(Num::Int(i)));
        let r = MD::new(b.index_opt(&*idx));
        let pos = if i >= 0 { i } else { 3 + i };
        let bytes = [7isize, 0xc3, 0xa4];
        match &*r {
            Ok(Some(Val::Num(n))) => assert!(0 <= pos && pos < 3 && int_value(n) == Some(bytes[pos as usize] as i128)),
            Ok(None) => assert!(!(0 <= pos && pos < 3)),
            _ => assert!(false),
        }
        k += 1;
    }
}

// ------------------------------------------------------------------------------------------
// C07 / C05: parse_num - how the JSON reader classifies number literals (points; the literals
// are in the harness text, the lexer is hifijson's real SliceLexer)
// ------------------------------------------------------------------------------------------
fn is_dec(r: &Result<Num, hifijson::Error>, text: &str) -> bool {
    matches!(r, Ok(Num::Dec(s)) if s.as_str() == text)
}
static mut RADIX_ARG: Option<(usize, u8, u8, u32)> = None;
/// ghost stub for `Num::from_str_radix` (the integer parsers themselves are `core` and
/// num-bigint): it answers as the real function does on the question that matters here -
/// `None` unless the text is an optional sign followed by at least one digit and nothing else -
/// and records what it was asked
fn from_str_radix_stub(i: &str, radix: u32) -> Option<Num> {
    let b = i.as_bytes();
    unsafe { RADIX_ARG = Some((b.len(), if b.is_empty() { 0 } else { b[0] }, if b.is_empty() { 0 } else { b[b.len() - 1] }, radix)) };
    let digits = match b {
        [b'-' | b'+', rest @ ..] => rest,
        _ => b,
    };
    let mut ok = !digits.is_empty();
    let mut k = 0;
    while k < digits.len() {
        ok = ok && digits[k].is_ascii_digit();
        k += 1;
    }
    if ok {
        Some(Num::Int(77))
    } else {
        None
    }
}
/// literals with an exponent and no dot are decimals kept character for character
#[kani::proof]
#[kani::unwind(12)]
#[kani::stub(Num::from_str_radix, from_str_radix_stub)]
fn c07_parse_num_exp() {
    assert!(is_dec(&MD::new(crate::read::verif_parse_num(b"1e1000")), "1e1000"));
    assert!(is_dec(&MD::new(crate::read::verif_parse_num(b"1E2")), "1E2"));
    assert!(is_dec(&MD::new(crate::read::verif_parse_num(b"-2e-3")), "-2e-3"));
}
/// literals with a fraction are decimals kept character for character (trailing zero included)
#[kani::proof]
#[kani::unwind(12)]
#[kani::stub(Num::from_str_radix, from_str_radix_stub)]
fn c07_parse_num_frac() {
    assert!(is_dec(&MD::new(crate::read::verif_parse_num(b"1.10")), "1.10"));
    assert!(is_dec(&MD::new(crate::read::verif_parse_num(b"-0.0")), "-0.0"));
    assert!(is_dec(&MD::new(crate::read::verif_parse_num(b"1.5e3")), "1.5e3"));
}
/// a sign alone, a sign before a non-digit, a literal ending in `.` / `e`: whatever the reader
/// makes of these (they are not JSON), it does so without a panic - in particular without
/// unwrapping a failed integer parse; and if it accepts one, then as the decimal with that text
#[kani::proof]
#[kani::unwind(12)]
#[kani::stub(Num::from_str_radix, from_str_radix_stub)]
fn c07_parse_num_reject() {
    let ok = |r: &Result<Num, hifijson::Error>, text: &str| r.is_err() || is_dec(r, text);
    assert!(ok(&MD::new(crate::read::verif_parse_num(b"-")), "-"));
    assert!(ok(&MD::new(crate::read::verif_parse_num(b"+")), "+"));
    assert!(ok(&MD::new(crate::read::verif_parse_num(b"1.")), "1."));
    assert!(ok(&MD::new(crate::read::verif_parse_num(b"1e")), "1e"));
    assert!(ok(&MD::new(crate::read::verif_parse_num(b"-]")), "-"));
}
/// signed infinities
#[kani::proof]
#[kani::unwind(12)]
fn c07_parse_num_inf() {
    assert!(matches!(&*MD::new(crate::read::verif_parse_num(b"+Infinity")), Ok(Num::Float(f)) if *f == f64::INFINITY));
    assert!(matches!(&*MD::new(crate::read::verif_parse_num(b"-Infinity")), Ok(Num::Float(f)) if *f == f64::NEG_INFINITY));
}
/// integer literals go to the integer parser whole (sign included), in base 10, and its answer
/// is returned
#[kani::proof]
#[kani::unwind(12)]
#[kani::stub(Num::from_str_radix, from_str_radix_stub)]
fn c07_parse_num_int() {
    let r = MD::new(crate::read::verif_parse_num(b"-120 "));
    assert!(matches!(&*r, Ok(Num::Int(77))));
    assert!(unsafe { RADIX_ARG } == Some((4, b'-', b'0', 10)));
}

// ------------------------------------------------------------------------------------------
// C12: contains, indices (points on concrete containers)
// ------------------------------------------------------------------------------------------
fn int_arr(xs: &[isize]) -> MD<Val> {
    MD::new(Val::Arr(Rc::new(xs.iter().map(|i| Val::Num(Num::Int(*i))).collect())))
}
/// arrays: every element of the argument is contained in some element of the input - the
/// argument may be longer than the input
#[kani::proof]
#[kani::unwind(8)]
fn c12_contains_arrays() {
    use crate::funs::verif_contains as contains;
    assert!(contains(&int_arr(&[1, 2]), &int_arr(&[1, 1, 2])));
    assert!(!contains(&int_arr(&[1, 2]), &int_arr(&[3])));
    assert!(contains(&int_arr(&[1, 2]), &int_arr(&[])));
    assert!(!contains(&int_arr(&[]), &int_arr(&[1])));
}
fn idx_is(r: Option<(usize, [usize; 4])>, n: usize, e: [usize; 4]) -> bool {
    match r {
        Some((m, g)) => m == n && g[0] == e[0] && g[1] == e[1] && g[2] == e[2] && g[3] == e[3],
        None => false,
    }
}
/// arrays: `indices($x)` lists exactly the i with `.[i:][:$x|length] == $x` (non-empty $x)
#[kani::proof]
#[kani::unwind(8)]
fn c12_indices_arrays() {
    use crate::funs::verif_indices as indices;
    let a = int_arr(&[1, 2, 1]);
    assert!(idx_is(indices(&a, &int_arr(&[2, 1])), 1, [1, usize::MAX, usize::MAX, usize::MAX]));
    assert!(idx_is(indices(&a, &int_arr(&[2, 2])), 0, [usize::MAX; 4]));
    // overlapping matches are all listed
    assert!(idx_is(indices(&int_arr(&[1, 1, 1]), &int_arr(&[1, 1])), 2, [0, 1, usize::MAX, usize::MAX]));
}
/// a non-array argument lists the positions of equal elements
#[kani::proof]
#[kani::unwind(8)]
fn c12_indices_element() {
    use crate::funs::verif_indices as indices;
    let a = int_arr(&[1, 2, 1]);
    let one = MD::new(Val::Num(Num::Int(1)));
    assert!(idx_is(indices(&a, &one), 2, [0, 2, usize::MAX, usize::MAX]));
}
/// byte strings: window positions in bytes
#[kani::proof]
#[kani::unwind(8)]
fn c12_indices_bytes() {
    use crate::funs::verif_indices as indices;
    let a = MD::new(Val::byte_str(Vec::from(*b"abab")));
    let ab = MD::new(Val::byte_str(Vec::from(*b"ab")));
    assert!(idx_is(indices(&a, &ab), 2, [0, 2, usize::MAX, usize::MAX]));
}

/// text strings: positions count characters, windows are compared as bytes
#[kani::proof]
#[kani::unwind(10)]
fn c12_indices_text() {
    use crate::funs::verif_indices as indices;
    let a = MD::new(Val::utf8_str(Vec::from("a\u{e4}a\u{e4}".as_bytes())));
    let ae = MD::new(Val::utf8_str(Vec::from("\u{e4}".as_bytes())));
    assert!(idx_is(indices(&a, &ae), 2, [1, 3, usize::MAX, usize::MAX]));
}

// ------------------------------------------------------------------------------------------
// C07: write_buf (the writer behind `tojson` / `tostring` / `@json`) - points
// ------------------------------------------------------------------------------------------
fn write_buf_of(v: &Val, out: &mut [u8; 8]) -> usize {
    let mut w = MD::new(crate::write::Buf(Vec::new()));
    let pp = MD::new(crate::write::Pp::<String>::default());
    let r = crate::write::write_buf(&mut w, &pp, 0, v);
    assert!(r.is_ok());
    let n = w.0.len();
    let mut i = 0;
    while i < n && i < 8 {
        out[i] = w.0[i];
        i += 1;
    }
    n
}
/// a text string holding a byte that is not valid UTF-8 is written with that byte unchanged
/// (not replaced by U+FFFD), so that `tojson | fromjson` can give the same string back
#[kani::proof]
#[kani::unwind(10)]
fn c07_write_buf_invalid_utf8() {
    let v = MD::new(Val::utf8_str(Vec::from([b'a', 0xff, b'b'])));
    let mut out = [0u8; 8];
    let n = write_buf_of(&v, &mut out);
    assert!(n == 5 && out[0] == b'"' && out[1] == b'a' && out[2] == 0xff && out[3] == b'b' && out[4] == b'"');
}
/// null / true through the same writer
#[kani::proof]
#[kani::unwind(10)]
fn c07_write_buf_atoms() {
    let mut out = [0u8; 8];
    let n = write_buf_of(&MD::new(Val::Null), &mut out);
    assert!(n == 4 && out[0] == b'n' && out[3] == b'l');
    let n = write_buf_of(&MD::new(Val::Bool(true)), &mut out);
    assert!(n == 4 && out[0] == b't' && out[3] == b'e');
}

// ------------------------------------------------------------------------------------------
// C07: parse_string - the JSON / XJON string reader at points (text after the opening quote)
// ------------------------------------------------------------------------------------------
fn str_is(r: &Result<Vec<u8>, hifijson::Error>, want: &[u8]) -> bool {
    match r {
        Ok(v) => {
            let mut same = v.len() == want.len();
            let mut i = 0;
            while same && i < want.len() {
                same = v[i] == want[i];
                i += 1;
            }
            same
        }
        Err(_) => false,
    }
}
/// text strings: plain bytes are copied, invalid UTF-8 included
#[kani::proof]
#[kani::unwind(12)]
fn c07_parse_string_plain() {
    use crate::read::verif_parse_string as ps;
    assert!(str_is(&MD::new(ps(b"a\xffb\"", false)), b"a\xffb"));
}
/// text strings: two-character escapes
#[kani::proof]
#[kani::unwind(12)]
fn c07_parse_string_esc() {
    use crate::read::verif_parse_string as ps;
    assert!(str_is(&MD::new(ps(b"\\n\\\"\"", false)), b"\n\""));
}
/// text strings: \uXXXX denotes that character, written as UTF-8
#[kani::proof]
#[kani::unwind(12)]
fn c07_parse_string_uni() {
    use crate::read::verif_parse_string as ps;
    assert!(str_is(&MD::new(ps(b"\\u00e4\"", false)), "\u{e4}".as_bytes()));
}
/// byte strings: \xNN denotes the byte NN itself (not the character U+00NN)
#[kani::proof]
#[kani::unwind(12)]
fn c07_parse_string_bytes() {
    use crate::read::verif_parse_string as ps;
    assert!(str_is(&MD::new(ps(b"\\xff\\x00a\"", true)), b"\xff\x00a"));
}
