// ---- appended by /verif overlay (cfg(kani) only): forwarding wrappers to private items ----
#[cfg(kani)]
pub(crate) fn verif_float_cmp(l: f64, r: f64) -> Ordering {
    float_cmp(l, r)
}
#[cfg(kani)]
pub(crate) fn verif_float_eq(l: f64, r: f64) -> bool {
    float_eq(l, r)
}
