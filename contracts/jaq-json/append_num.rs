// ---- appended by /verif overlay (cfg(kani) only): forwarding wrappers to private items ----
#[cfg(kani)]
pub(crate) fn verif_float_cmp(l: f64, r: f64) -> Ordering {
    float_cmp(l, r)
}
#[cfg(kani)]
pub(crate) fn verif_float_eq(l: f64, r: f64) -> bool {
    float_eq(l, r)
}
#[cfg(kani)]
pub(crate) fn verif_int_or_big<const N: usize>(i: Option<isize>, x: [isize; N], f: fn([BigInt; N]) -> BigInt) -> Num {
    int_or_big(i, x, f)
}
