// ---- appended by /verif overlay (cfg(kani) only) ----
#[cfg(kani)]
impl<'a> ByteChar<'a> {
    pub(crate) fn verif_char_of_byte(&mut self, byte_offset: usize) -> Option<usize> {
        self.char_of_byte(byte_offset)
    }
}
