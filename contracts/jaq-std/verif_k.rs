//! Trait-contract instances and proof harnesses for `jaq-std` (compiled only under cfg(kani)).
//!
//! The functions of jaq-std are generic over the value type: they are verified here against
//! the *contract of the `ValT` trait*, instantiated with the abstract value `AnyVal` whose
//! observers return unconstrained symbolic answers subject only to what the trait documents
//! (`as_isize()` is `Some` only for integers; integers are numbers).  A result proved for
//! `AnyVal` holds for every conforming value type; that `jaq_json::Val` conforms is
//! obligation O-C09-observers in jaq-json.  Methods the functions under proof have no business
//! calling are `unreachable!()`, so an unexpected dependency shows up as a failed check.
//! Third-party callees (jiff constructors, `alloc::fmt::format`) are replaced by
//! ghost-recording stubs: the obligations are about *what jaq passes*.
#![allow(dead_code, unused_imports, static_mut_refs, clippy::all)]
use crate::{ValT, ValTx};
use alloc::{boxed::Box, string::String, vec::Vec};
use core::cmp::Ordering;
use core::mem::ManuallyDrop as MD;
use jaq_core::box_iter::BoxIter;
use jaq_core::{path::Opt, val::Range, Error, ValR, ValX};

// ------------------------------------------------------------------------------------------
// AnyVal
// ------------------------------------------------------------------------------------------

/// `made_from`: 0 = symbolic input, 1 bool, 2 isize, 3 usize, 4 f64, 5 String, 6 Range,
/// 7 FromIterator, 8 from_num (decimal text), 9 from_utf8_bytes
#[derive(Clone, Copy, Debug)]
pub struct AnyVal {
    pub is_int: bool,
    pub int: Option<isize>,
    pub flt: Option<f64>,
    pub made_from: i8,
    /// `Some(elements)` makes the value an array (for `into_seq`); symbolic values are never arrays
    pub arr: Option<&'static [AnyVal]>,
}

impl kani::Arbitrary for AnyVal {
    fn any() -> Self {
        let v = AnyVal { is_int: kani::any(), int: kani::any(), flt: kani::any(), made_from: 0, arr: None };
        kani::assume(v.int.is_none() || v.is_int); // doc contract of ValT::as_isize
        kani::assume(!v.is_int || v.flt.is_some()); // integers are numbers (as_f64 succeeds for all numeric values)
        v
    }
}
fn mk(tag: i8) -> AnyVal {
    AnyVal { is_int: false, int: None, flt: None, made_from: tag, arr: None }
}
/// an integer value as `From<isize>` builds it
pub fn int_val(i: isize) -> AnyVal {
    AnyVal::from(i)
}

impl core::fmt::Display for AnyVal {
    fn fmt(&self, _f: &mut core::fmt::Formatter) -> core::fmt::Result {
        Ok(())
    }
}
impl PartialEq for AnyVal {
    fn eq(&self, _o: &Self) -> bool {
        unreachable!()
    }
}
impl Eq for AnyVal {}
impl PartialOrd for AnyVal {
    fn partial_cmp(&self, _o: &Self) -> Option<Ordering> {
        unreachable!()
    }
}
impl Ord for AnyVal {
    fn cmp(&self, _o: &Self) -> Ordering {
        unreachable!()
    }
}
impl From<bool> for AnyVal {
    fn from(_: bool) -> Self {
        mk(1)
    }
}
impl From<isize> for AnyVal {
    fn from(i: isize) -> Self {
        AnyVal { is_int: true, int: Some(i), flt: Some(i as f64), made_from: 2, arr: None }
    }
}
impl From<usize> for AnyVal {
    fn from(_: usize) -> Self {
        mk(3)
    }
}
impl From<f64> for AnyVal {
    fn from(f: f64) -> Self {
        AnyVal { is_int: false, int: None, flt: Some(f), made_from: 4, arr: None }
    }
}
impl From<String> for AnyVal {
    fn from(_: String) -> Self {
        mk(5)
    }
}
impl From<Range<AnyVal>> for AnyVal {
    fn from(_: Range<AnyVal>) -> Self {
        mk(6)
    }
}
impl FromIterator<AnyVal> for AnyVal {
    fn from_iter<T: IntoIterator<Item = AnyVal>>(_: T) -> Self {
        mk(7)
    }
}
macro_rules! op {
    ($t:ident, $m:ident) => {
        impl core::ops::$t for AnyVal {
            type Output = ValR<Self>;
            fn $m(self, _r: Self) -> ValR<Self> {
                unreachable!()
            }
        }
    };
}
op!(Add, add);
op!(Sub, sub);
op!(Mul, mul);
op!(Div, div);
op!(Rem, rem);
impl core::ops::Neg for AnyVal {
    type Output = ValR<Self>;
    fn neg(self) -> ValR<Self> {
        unreachable!()
    }
}

impl jaq_core::ValT for AnyVal {
    fn from_num(_n: &str) -> ValR<Self> {
        Ok(mk(8))
    }
    fn from_map<I: IntoIterator<Item = (Self, Self)>>(_iter: I) -> ValR<Self> {
        unreachable!()
    }
    fn key_values(self) -> BoxIter<'static, ValR<(Self, Self), Self>> {
        unreachable!()
    }
    fn values(self) -> Box<dyn Iterator<Item = ValR<Self>>> {
        unreachable!()
    }
    fn index(self, _index: &Self) -> ValR<Self> {
        unreachable!()
    }
    fn range(self, _range: Range<&Self>) -> ValR<Self> {
        unreachable!()
    }
    fn map_values<'a, I: Iterator<Item = ValX<'a, Self>>>(self, _opt: Opt, _f: impl Fn(Self) -> I) -> ValX<'a, Self> {
        unreachable!()
    }
    fn map_index<'a, I: Iterator<Item = ValX<'a, Self>>>(self, _index: &Self, _opt: Opt, _f: impl Fn(Self) -> I) -> ValX<'a, Self> {
        unreachable!()
    }
    fn map_range<'a, I: Iterator<Item = ValX<'a, Self>>>(self, _range: Range<&Self>, _opt: Opt, _f: impl Fn(Self) -> I) -> ValX<'a, Self> {
        unreachable!()
    }
    fn as_bool(&self) -> bool {
        unreachable!()
    }
    fn into_string(self) -> Self {
        unreachable!()
    }
}
impl ValT for AnyVal {
    fn into_seq<S: FromIterator<Self>>(self) -> Result<S, Self> {
        match self.arr {
            Some(a) => Ok(a.iter().copied().collect()),
            None => Err(self),
        }
    }
    fn is_int(&self) -> bool {
        self.is_int
    }
    fn as_isize(&self) -> Option<isize> {
        self.int
    }
    fn as_f64(&self) -> Option<f64> {
        self.flt
    }
    fn is_utf8_str(&self) -> bool {
        false
    }
    fn as_bytes(&self) -> Option<&[u8]> {
        None
    }
    fn as_sub_str(&self, _sub: &[u8]) -> Self {
        unreachable!()
    }
    fn from_utf8_bytes(_b: impl AsRef<[u8]> + Send + 'static) -> Self {
        mk(9)
    }
}

/// `alloc::fmt::format` is only reached on error paths (rendering messages); it is replaced by
/// a constant so that CBMC does not execute `core::fmt` symbolically.
pub fn fmt_stub(_args: core::fmt::Arguments<'_>) -> String {
    String::new()
}

// ------------------------------------------------------------------------------------------
// C13 / C05: implode, explode
// ------------------------------------------------------------------------------------------

/// UTF-8 encoding of a Unicode scalar value, from the Unicode standard (table 3-6)
fn utf8_spec(c: u32, out: &mut [u8; 4]) -> usize {
    if c < 0x80 {
        out[0] = c as u8;
        1
    } else if c < 0x800 {
        out[0] = 0xC0 | (c >> 6) as u8;
        out[1] = 0x80 | (c & 0x3F) as u8;
        2
    } else if c < 0x10000 {
        out[0] = 0xE0 | (c >> 12) as u8;
        out[1] = 0x80 | ((c >> 6) & 0x3F) as u8;
        out[2] = 0x80 | (c & 0x3F) as u8;
        3
    } else {
        out[0] = 0xF0 | (c >> 18) as u8;
        out[1] = 0x80 | ((c >> 12) & 0x3F) as u8;
        out[2] = 0x80 | ((c >> 6) & 0x3F) as u8;
        out[3] = 0x80 | (c & 0x3F) as u8;
        4
    }
}
/// what one code contributes to the imploded string: `Some(bytes)` or `None` = rejected
fn implode_elem_spec(v: &AnyVal, out: &mut [u8; 4]) -> Option<usize> {
    let i = v.int? as i128; // not a machine integer: rejected
    if -255 <= i && i <= 0 {
        out[0] = (-i) as u8; // a byte that was not valid UTF-8 (0 is also U+0000)
        Some(1)
    } else if 0 < i && i <= 0x10FFFF && !(0xD800 <= i && i <= 0xDFFF) {
        Some(utf8_spec(i as u32, out))
    } else {
        None
    }
}

/// `implode` on one code: never panics, never wraps; byte codes, scalar values, rejection.
#[kani::proof]
#[kani::unwind(6)]
#[kani::stub(alloc::fmt::format, fmt_stub)]
fn c13_implode_one() {
    let x: AnyVal = kani::any();
    kani::cover!(x.int == Some(isize::MIN));
    kani::cover!(matches!(x.int, Some(i) if i > 0x10000 && i <= 0x10FFFF));
    let xs = [x];
    let r = MD::new(crate::implode(&xs));
    let mut want = [0u8; 4];
    match (implode_elem_spec(&x, &mut want), &*r) {
        (Some(n), Ok(out)) => {
            assert!(out.len() == n);
            let mut k = 0;
            while k < n {
                assert!(out[k] == want[k]);
                k += 1;
            }
        }
        (None, Err(_)) => (),
        _ => assert!(false),
    }
}

/// `implode` on two codes: the output is the concatenation, the first rejected code ends it
/// with an error (per-element behaviour does not depend on position).
#[kani::proof]
#[kani::unwind(6)]
#[kani::stub(alloc::fmt::format, fmt_stub)]
fn c13_implode_two() {
    let xs: [AnyVal; 2] = kani::any();
    let r = MD::new(crate::implode(&xs));
    let (mut w0, mut w1) = ([0u8; 4], [0u8; 4]);
    match (implode_elem_spec(&xs[0], &mut w0), implode_elem_spec(&xs[1], &mut w1), &*r) {
        (Some(n0), Some(n1), Ok(out)) => {
            assert!(out.len() == n0 + n1);
            let mut k = 0;
            while k < n0 {
                assert!(out[k] == w0[k]);
                k += 1;
            }
            let mut k = 0;
            while k < n1 {
                assert!(out[n0 + k] == w1[k]);
                k += 1;
            }
        }
        (None, _, Err(_)) | (_, None, Err(_)) => (),
        _ => assert!(false),
    }
    let empty: [AnyVal; 0] = [];
    assert!(matches!(&*MD::new(crate::implode(&empty)), Ok(v) if v.is_empty()));
}

/// `explode` then `implode` returns the original bytes, for every byte string of length
/// `N - 1` or less (valid or invalid UTF-8); every emitted code is a scalar value or a negated
/// byte.
fn explode_implode<const N: usize>() {
    let b: [u8; N] = kani::any();
    let n: usize = kani::any();
    kani::assume(n < N);
    let s = &b[..n];
    let mut codes: [AnyVal; N] = [mk(0); N];
    let mut k = 0usize;
    for r in crate::explode::<AnyVal>(s) {
        match r {
            Ok(v) => {
                assert!(k < n);
                assert!(v.made_from == 2);
                let i = v.int.unwrap();
                assert!((-255 <= i && i < 0) || (0 <= i && i <= 0x10FFFF && !(0xD800 <= i && i <= 0xDFFF)));
                codes[k] = v;
                k += 1;
            }
            Err(_) => assert!(false),
        }
    }
    let back = MD::new(crate::implode(&codes[..k]));
    match &*back {
        Ok(out) => {
            assert!(out.len() == n);
            let mut i = 0;
            while i < n {
                assert!(out[i] == s[i]);
                i += 1;
            }
        }
        Err(_) => assert!(false),
    }
}
#[kani::proof]
#[kani::unwind(4)]
#[kani::stub(alloc::fmt::format, fmt_stub)]
fn c13_explode_implode_1() {
    explode_implode::<2>()
}
#[kani::proof]
#[kani::unwind(4)]
#[kani::stub(alloc::fmt::format, fmt_stub)]
fn c13_explode_implode_2() {
    explode_implode::<3>()
}
#[kani::proof]
#[kani::unwind(5)]
#[kani::stub(alloc::fmt::format, fmt_stub)]
fn c13_explode_implode_3() {
    explode_implode::<4>()
}

// ------------------------------------------------------------------------------------------
// C09 / C12: round, floor, ceil
// ------------------------------------------------------------------------------------------

/// `ValTx::round(g)` with the rounding function abstracted to "returns any float y": integer
/// inputs are returned unchanged; a finite y inside the machine-integer range becomes exactly
/// the integer y (for integral y); outside it the decimal-text path is taken; a non-finite y
/// stays a float.  (Stronger than needed: floor/round/ceil only return integral or non-finite
/// values.)
#[kani::proof]
#[kani::stub(alloc::fmt::format, fmt_stub)]
fn c09_round() {
    let v: AnyVal = kani::any();
    let y: f64 = kani::any();
    kani::cover!(y == 9223372036854775808.0);
    kani::cover!(y == -9223372036854775808.0);
    let r = MD::new(v.round(move |_| y));
    match &*r {
        Ok(out) if v.is_int => assert!(out.made_from == 0 && out.int == v.int && out.is_int),
        Ok(out) => {
            assert!(v.flt.is_some());
            let integral = y.is_finite() && y == (y as i128) as f64;
            match out.made_from {
                2 => {
                    assert!(y.is_finite());
                    if integral {
                        assert!(out.int.unwrap() as i128 == y as i128);
                    }
                }
                8 => assert!(y.is_finite() && !(y >= -9223372036854775808.0 && y < 9223372036854775808.0)),
                4 => assert!(!y.is_finite() && same_float(out.flt.unwrap(), y)),
                _ => assert!(false),
            }
        }
        Err(_) => assert!(!v.is_int && v.flt.is_none()),
    }
}
fn same_float(a: f64, b: f64) -> bool {
    a.to_bits() == b.to_bits() || (a.is_nan() && b.is_nan())
}

/// `try_as_i32` is the exact integer or an error, never a truncation
#[kani::proof]
#[kani::stub(alloc::fmt::format, fmt_stub)]
fn c05_try_as_i32() {
    let v: AnyVal = kani::any();
    let r = MD::new(v.try_as_i32());
    match (&*r, v.int) {
        (Ok(x), Some(i)) => assert!(*x as i128 == i as i128),
        (Err(_), Some(i)) => assert!(i < i32::MIN as isize || i > i32::MAX as isize),
        (Err(_), None) => (),
        _ => assert!(false),
    }
}

// ------------------------------------------------------------------------------------------
// C20 / C05: conversions around jiff
// ------------------------------------------------------------------------------------------
static mut GHOST_US: Option<i64> = None;
static mut GHOST_S: Option<i64> = None;
fn from_us_stub(us: i64) -> Result<jiff::Timestamp, jiff::Error> {
    unsafe { GHOST_US = Some(us) };
    Ok(jiff::Timestamp::UNIX_EPOCH)
}
fn from_s_stub(s: i64) -> Result<jiff::Timestamp, jiff::Error> {
    unsafe { GHOST_S = Some(s) };
    Ok(jiff::Timestamp::UNIX_EPOCH)
}

/// jiff's documented range of `Timestamp::from_microsecond` (years -9999..=9999); an argument
/// outside it is rejected by jiff with an error (assumed contract of the dependency)
fn jiff_accepts_us(us: i64) -> bool {
    -377705023201000000 <= us && us <= 253402207200000000
}
/// what `epoch_to_timestamp` / `to_iso8601` may hand to jiff for the number `v`, in
/// microseconds: the exact product for machine integers; for floats the microsecond nearest to
/// the IEEE product, where a non-finite input must never become an instant that jiff accepts ("never
/// wrapped, clamped or answered with a different instant"); an error for everything else
fn check_epoch_us(v: &AnyVal, passed: Option<i64>, is_err: bool) {
    match (v.int, v.flt) {
        (Some(i), _) => match passed {
            Some(us) => assert!(us as i128 == i as i128 * 1_000_000),
            None => assert!(is_err),
        },
        (None, Some(f)) => match passed {
            Some(us) => {
                // "to the microsecond": the nearest microsecond to f seconds, not a truncation
                // (below 2^53 microseconds; beyond that the product is integral and the cast
                // saturates outside jiff's range)
                let p = f * 1000000.0;
                if p.abs() < 9.0e15 {
                    assert!((us as f64 - p).abs() <= 0.5);
                } else {
                    assert!(us == p as i64);
                }
                if !f.is_finite() {
                    assert!(!jiff_accepts_us(us));
                }
            }
            None => assert!(is_err),
        },
        // non-numbers: never a timestamp
        (None, None) => assert!(passed.is_none() && is_err),
    }
}

#[kani::proof]
#[kani::stub(jiff::Timestamp::from_microsecond, from_us_stub)]
#[kani::stub(alloc::fmt::format, fmt_stub)]
fn c20_epoch_to_timestamp() {
    let v: AnyVal = kani::any();
    kani::cover!(matches!(v.int, Some(i) if i > 9223372036854));
    kani::cover!(v.int.is_none() && matches!(v.flt, Some(f) if f.is_nan()));
    let ok = crate::time::verif_epoch_to_timestamp(&v);
    check_epoch_us(&v, unsafe { GHOST_US }, !ok);
}

/// `timestamp_to_epoch`: whole seconds come back as the exact integer, fractional ones as
/// microseconds / 10^6 (jiff's accessors replaced by symbolic ghost values)
static mut GHOST_TS: (i64, i64) = (0, 0);
fn as_second_stub(_t: jiff::Timestamp) -> i64 {
    unsafe { GHOST_TS.0 }
}
fn as_microsecond_stub(_t: jiff::Timestamp) -> i64 {
    unsafe { GHOST_TS.1 }
}
#[kani::proof]
#[kani::solver(cvc5)]
#[kani::stub(jiff::Timestamp::as_second, as_second_stub)]
#[kani::stub(jiff::Timestamp::as_microsecond, as_microsecond_stub)]
#[kani::stub(alloc::fmt::format, fmt_stub)]
fn c20_timestamp_to_epoch() {
    let (s, us): (i64, i64) = kani::any();
    unsafe { GHOST_TS = (s, us) };
    let frac: bool = kani::any();
    let r = MD::new(crate::time::verif_timestamp_to_epoch::<AnyVal>(jiff::Timestamp::UNIX_EPOCH, frac));
    match &*r {
        Ok(out) if frac => assert!(out.made_from == 4 && same_float(out.flt.unwrap(), us as f64 / 1e6)),
        Ok(out) => assert!(out.made_from == 2 && out.int.unwrap() as i128 == s as i128),
        Err(_) => assert!(false),
    }
}

/// `mktime` = `timestamp_to_epoch` o jiff o `array_to_datetime`: the decision "whole or fractional"
/// is taken in `mktime` itself from `Timestamp::subsec_nanosecond`, which jiff documents as
/// carrying the SIGN of the timestamp (negative before 1970).  From the property ("`gmtime |
/// mktime` returns the original instant, to the microsecond for fractional times"): an integer
/// result is only allowed when the instant has no microsecond fraction, on either side of 1970.
/// `array_to_datetime` (under its own obligations O-C20-array / -seconds) and jiff's `to_zoned`
/// are replaced by constant stubs - `Zoned::new` on constants alone costs > 200 s under CBMC, so
/// the `Zoned` is an all-zero placeholder that is never read (`Zoned::timestamp` is stubbed) and
/// has no destructor (time-zone tag 0).  jiff's accessors are replaced by symbolic ghost values tied by their documented relation
/// (assumed contract of the dependency): sign(ns) agrees with sign(s), |ns| < 10^9,
/// as_microsecond = s * 10^6 + ns / 1000 (truncating).
static mut GHOST_NS: i32 = 0;
fn subsec_ns_stub(_t: jiff::Timestamp) -> i32 {
    unsafe { GHOST_NS }
}
fn to_zoned_stub(_dt: jiff::civil::DateTime, tz: jiff::tz::TimeZone) -> Result<jiff::Zoned, jiff::Error> {
    core::mem::forget(tz);
    // never read, no destructor (see above)
    Ok(unsafe { core::mem::zeroed::<jiff::Zoned>() })
}
fn zoned_ts_stub(_z: &jiff::Zoned) -> jiff::Timestamp {
    jiff::Timestamp::UNIX_EPOCH
}
fn a2d_stub<V: ValT>(_v: &[V]) -> Option<Result<jiff::civil::DateTime, jiff::Error>> {
    Some(Ok(jiff::civil::DateTime::constant(2000, 1, 1, 0, 0, 0, 0)))
}
#[kani::proof]
#[kani::unwind(2)]
#[kani::stub(crate::time::array_to_datetime, a2d_stub)]
#[kani::stub(jiff::civil::DateTime::to_zoned, to_zoned_stub)]
#[kani::stub(jiff::Zoned::timestamp, zoned_ts_stub)]
#[kani::stub(jiff::Timestamp::subsec_nanosecond, subsec_ns_stub)]
#[kani::stub(jiff::Timestamp::as_second, as_second_stub)]
#[kani::stub(jiff::Timestamp::as_microsecond, as_microsecond_stub)]
#[kani::stub(alloc::fmt::format, fmt_stub)]
fn c20_mktime_fraction() {
    let (s, ns): (i64, i32) = kani::any();
    kani::assume(-377705023201 <= s && s <= 253402207200);
    kani::assume(-1_000_000_000 < ns && ns < 1_000_000_000);
    kani::assume(!(s > 0 && ns < 0) && !(s < 0 && ns > 0));
    let us = s * 1_000_000 + (ns / 1000) as i64;
    unsafe {
        GHOST_TS = (s, us);
        GHOST_NS = ns;
    }
    static ARR: [AnyVal; 0] = [];
    let v = AnyVal { is_int: false, int: None, flt: None, made_from: 0, arr: Some(&ARR) };
    kani::cover!(s == 0 && ns == -500_000_000);
    kani::cover!(s == -1 && ns == -500_000_000);
    kani::cover!(s == 1 && ns == 500_000_000);
    kani::cover!(ns == 0);
    let r = MD::new(crate::time::mktime(&v));
    match &*r {
        Ok(out) => match out.made_from {
            // an integer answer must be the instant itself
            2 => assert!(out.int.unwrap() as i128 * 1_000_000 == us as i128),
            // a fractional answer: its value is microseconds / 10^6 by O-C20-back
            4 => (),
            _ => assert!(false),
        },
        Err(_) => assert!(false),
    }
}

static mut GHOST_DT: Option<(i16, i8, i8, i8, i8, i8, i32)> = None;
fn dt_new_stub(y: i16, mo: i8, d: i8, h: i8, mi: i8, s: i8, ns: i32) -> Result<jiff::civil::DateTime, jiff::Error> {
    unsafe { GHOST_DT = Some((y, mo, d, h, mi, s, ns)) };
    Ok(jiff::civil::DateTime::constant(2000, 1, 1, 0, 0, 0, 0))
}

/// `array_to_datetime`, integer fields: `DateTime::new` receives exactly
/// (year, month + 1, day, hour, minute, ..) as mathematical integers whenever it is called;
/// a field that is not a machine integer, or does not fit, gives `None` - never a wrapped or
/// saturated value, never a panic.  Seconds fixed to the integer 0 here (`c20_array_seconds`).
#[kani::proof]
#[kani::unwind(8)]
#[kani::stub(jiff::civil::DateTime::new, dt_new_stub)]
#[kani::stub(alloc::fmt::format, fmt_stub)]
fn c20_array_fields() {
    let mut v: [AnyVal; 6] = kani::any();
    v[5] = int_val(0);
    kani::cover!(v[1].int == Some(127));
    kani::cover!(v[0].int == Some(2000) && v[1].int == Some(11));
    let some = crate::time::verif_array_to_datetime(&v);
    match unsafe { GHOST_DT } {
        Some((y, mo, d, h, mi, s, ns)) => {
            assert!(some);
            assert!(v[0].int.map(|x| x as i128) == Some(y as i128));
            assert!(v[1].int.map(|x| x as i128 + 1) == Some(mo as i128));
            assert!(v[2].int.map(|x| x as i128) == Some(d as i128));
            assert!(v[3].int.map(|x| x as i128) == Some(h as i128));
            assert!(v[4].int.map(|x| x as i128) == Some(mi as i128));
            assert!(s == 0 && ns == 0);
        }
        None => assert!(!some),
    }
}

/// short arrays are rejected
#[kani::proof]
#[kani::unwind(8)]
#[kani::stub(jiff::civil::DateTime::new, dt_new_stub)]
#[kani::stub(alloc::fmt::format, fmt_stub)]
fn c20_array_short() {
    let v: [AnyVal; 5] = kani::any();
    let n: usize = kani::any();
    kani::assume(n <= 5);
    assert!(!crate::time::verif_array_to_datetime(&v[..n]));
    assert!(unsafe { GHOST_DT }.is_none());
}

/// seconds field: a finite second value inside the i8 range is passed as its floor, with the
/// fraction in nanoseconds; a value that is not a number gives `None`; NaN and values outside
/// the i8 range are never turned into a valid second (0..=59)
#[kani::proof]
#[kani::unwind(8)]
#[kani::stub(jiff::civil::DateTime::new, dt_new_stub)]
#[kani::stub(alloc::fmt::format, fmt_stub)]
fn c20_array_seconds() {
    let sec: AnyVal = kani::any();
    let v = [int_val(2000), int_val(0), int_val(1), int_val(0), int_val(0), sec];
    kani::cover!(matches!(sec.flt, Some(f) if f.is_nan()));
    kani::cover!(matches!(sec.flt, Some(f) if f == 59.5));
    let some = crate::time::verif_array_to_datetime(&v);
    match (unsafe { GHOST_DT }, sec.flt) {
        (Some((_, _, _, _, _, s, ns)), Some(f)) => {
            assert!(some);
            if f >= -128.0 && f < 128.0 {
                assert!(s as f64 <= f && f < s as f64 + 1.0);
                if f >= 0.0 {
                    // "to the microsecond": the sub-second part is the nearest nanosecond to the
                    // fraction (never a truncation that loses the last microsecond), and stays a
                    // valid nanosecond count
                    let p = (f - s as f64) * 1e9;
                    assert!(0 <= ns && ns <= 999_999_999);
                    assert!((ns as f64 - p).abs() <= 0.5 || (p > 999_999_999.5 && ns == 999_999_999));
                }
            } else {
                // out of range or NaN: whatever is passed must not look like a valid second
                assert!(!(0 <= s && s <= 59));
            }
        }
        (Some(_), None) => assert!(false),
        // rejected: only non-numbers and NaN may be
        (None, f) => assert!(!some && f.map_or(true, |f| f.is_nan())),
    }
}

// ------------------------------------------------------------------------------------------
// C11: once_or_empty
// ------------------------------------------------------------------------------------------
#[kani::proof]
#[kani::unwind(3)]
fn c11_once_or_empty() {
    let x: u8 = kani::any();
    let which: u8 = kani::any();
    kani::assume(which < 3);
    let r: Result<Option<u8>, u8> = match which {
        0 => Ok(Some(x)),
        1 => Ok(None),
        _ => Err(x),
    };
    let mut it = crate::once_or_empty(r);
    match which {
        0 => assert!(it.next() == Some(Ok(x))),
        1 => (),
        _ => assert!(it.next() == Some(Err(x))),
    }
    assert!(it.next().is_none());
}

/// `to_iso8601`: integers are passed to jiff as whole seconds, unchanged; everything else as
/// for `epoch_to_timestamp`
#[kani::proof]
#[kani::stub(jiff::Timestamp::from_microsecond, from_us_stub)]
#[kani::stub(jiff::Timestamp::from_second, from_s_stub)]
#[kani::stub(alloc::fmt::format, fmt_stub)]
fn c20_to_iso8601() {
    let v: AnyVal = kani::any();
    let ok = crate::time::verif_to_iso8601(&v);
    match v.int {
        Some(i) => assert!(unsafe { GHOST_S } == Some(i as i64) && unsafe { GHOST_US }.is_none()),
        None => {
            assert!(unsafe { GHOST_S }.is_none());
            check_epoch_us(&v, unsafe { GHOST_US }, !ok);
        }
    }
}

// ------------------------------------------------------------------------------------------
// C20: datetime_to_array - the field mapping jaq applies to what jiff's accessors return
// ------------------------------------------------------------------------------------------
/// ghost: (year, month, day, hour, minute, second, subsec_nanosecond, weekday from Sunday, day of year)
static mut GHOST_FIELDS: (i16, i8, i8, i8, i8, i8, i32, i8, i16) = (0, 0, 0, 0, 0, 0, 0, 0, 0);
fn dt_year(_d: jiff::civil::DateTime) -> i16 {
    unsafe { GHOST_FIELDS.0 }
}
fn dt_month(_d: jiff::civil::DateTime) -> i8 {
    unsafe { GHOST_FIELDS.1 }
}
fn dt_day(_d: jiff::civil::DateTime) -> i8 {
    unsafe { GHOST_FIELDS.2 }
}
fn dt_hour(_d: jiff::civil::DateTime) -> i8 {
    unsafe { GHOST_FIELDS.3 }
}
fn dt_minute(_d: jiff::civil::DateTime) -> i8 {
    unsafe { GHOST_FIELDS.4 }
}
fn dt_second(_d: jiff::civil::DateTime) -> i8 {
    unsafe { GHOST_FIELDS.5 }
}
fn dt_subsec(_d: jiff::civil::DateTime) -> i32 {
    unsafe { GHOST_FIELDS.6 }
}
fn dt_weekday(_d: jiff::civil::DateTime) -> jiff::civil::Weekday {
    use jiff::civil::Weekday::*;
    match unsafe { GHOST_FIELDS.7 } {
        0 => Sunday,
        1 => Monday,
        2 => Tuesday,
        3 => Wednesday,
        4 => Thursday,
        5 => Friday,
        _ => Saturday,
    }
}
fn dt_doy(_d: jiff::civil::DateTime) -> i16 {
    unsafe { GHOST_FIELDS.8 }
}

/// `datetime_to_array` yields `[year, month from 0, day, hours, minutes, seconds, weekday from
/// Sunday, day of year from 0]` of whatever jiff reports, with seconds an integer when the
/// sub-second part is zero and `second + nanoseconds / 10^9` otherwise (jiff's accessors are
/// replaced by ghost values over their documented ranges).
#[kani::proof]
#[kani::solver(cvc5)]
#[kani::unwind(10)]
#[kani::stub(jiff::civil::DateTime::year, dt_year)]
#[kani::stub(jiff::civil::DateTime::month, dt_month)]
#[kani::stub(jiff::civil::DateTime::day, dt_day)]
#[kani::stub(jiff::civil::DateTime::hour, dt_hour)]
#[kani::stub(jiff::civil::DateTime::minute, dt_minute)]
#[kani::stub(jiff::civil::DateTime::second, dt_second)]
#[kani::stub(jiff::civil::DateTime::subsec_nanosecond, dt_subsec)]
#[kani::stub(jiff::civil::DateTime::weekday, dt_weekday)]
#[kani::stub(jiff::civil::DateTime::day_of_year, dt_doy)]
fn c20_datetime_to_array() {
    let g: (i16, i8, i8, i8, i8, i8, i32, i8, i16) = kani::any();
    // documented ranges of the jiff accessors
    kani::assume(1 <= g.1 && g.1 <= 12 && 1 <= g.2 && g.2 <= 31 && 0 <= g.3 && g.3 <= 23);
    kani::assume(0 <= g.4 && g.4 <= 59 && 0 <= g.5 && g.5 <= 59 && 0 <= g.6 && g.6 <= 999_999_999);
    kani::assume(0 <= g.7 && g.7 <= 6 && 1 <= g.8 && g.8 <= 366);
    kani::cover!(g.6 > 0 && g.6 < 1000);
    kani::cover!(g.6 == 0 && g.1 == 12);
    unsafe { GHOST_FIELDS = g };
    let out = crate::time::verif_datetime_to_array::<AnyVal>(jiff::civil::DateTime::constant(2000, 1, 1, 0, 0, 0, 0));
    let is_int = |v: &AnyVal, x: i128| v.made_from == 2 && v.int.map(|i| i as i128) == Some(x);
    assert!(is_int(&out[0], g.0 as i128));
    assert!(is_int(&out[1], g.1 as i128 - 1));
    assert!(is_int(&out[2], g.2 as i128));
    assert!(is_int(&out[3], g.3 as i128));
    assert!(is_int(&out[4], g.4 as i128));
    if g.6 > 0 {
        assert!(out[5].made_from == 4 && same_float(out[5].flt.unwrap(), g.5 as f64 + g.6 as f64 / 1e9));
    } else {
        assert!(is_int(&out[5], g.5 as i128));
    }
    assert!(is_int(&out[6], g.7 as i128));
    assert!(is_int(&out[7], g.8 as i128 - 1));
}

// (An obligation on `mktime` - "fractional instants keep their fraction, also before the epoch",
// with DateTime::new / to_zoned / Timestamp accessors ghost-stubbed - was built and did not finish
// in 600 s: symbolic execution walks `Error::str`'s `ToString` rendering on the unreachable error
// paths, and `Error::str(impl ToString)` cannot be stubbed in the installed Kani.  DESIGN.md 7.)

// ------------------------------------------------------------------------------------------
// C13 / C05: byte offset -> character offset (regex match offsets)
// ------------------------------------------------------------------------------------------
/// number of characters (as bstr decodes them: every invalid byte sequence is one character)
/// that start before byte `o`, and whether `o` is a character boundary
fn chars_before(s: &[u8], o: usize) -> (usize, bool) {
    use bstr::ByteSlice;
    let mut n = 0;
    for (start, _end, _c) in s.char_indices() {
        if start == o {
            return (n, true);
        }
        if start > o {
            return (n, false);
        }
        n += 1;
    }
    (n, o == s.len())
}

/// `ByteChar::char_of_byte`, called for the capture groups of one match: the offsets are
/// character boundaries of the subject, but *in no particular order* (group 2 may start before
/// group 1, e.g. `(?:(x)|(y))+` on "yx" - the regex engine only guarantees that groups lie
/// inside group 0).  Each call must return the number of characters before the offset; `None`
/// makes `Match::new` panic on `unwrap`.
fn char_of_byte_two<const N: usize>() {
    let b: [u8; N] = kani::any();
    let n: usize = kani::any();
    kani::assume(n <= N);
    let s = &b[..n];
    let (o1, o2): (usize, usize) = kani::any();
    kani::assume(o1 <= n && o2 <= n);
    let ((c1, ok1), (c2, ok2)) = (chars_before(s, o1), chars_before(s, o2));
    kani::assume(ok1 && ok2);
    kani::cover!(o2 < o1);
    kani::cover!(o1 < o2 && c2 < o2);
    let mut bc = crate::regex::ByteChar::new(s);
    assert!(bc.verif_char_of_byte(o1) == Some(c1));
    assert!(bc.verif_char_of_byte(o2) == Some(c2));
}
#[kani::proof]
#[kani::unwind(5)]
fn c13_char_of_byte_2() {
    char_of_byte_two::<2>()
}
#[kani::proof]
#[kani::unwind(6)]
fn c13_char_of_byte_3() {
    char_of_byte_two::<3>()
}
