// ---- appended by /verif overlay (cfg(kani) only): forwarding wrappers to private items ----
// Results that own a jiff::Error are forgotten, not dropped: its drop glue is recursive.
#[cfg(kani)]
pub(crate) fn verif_epoch_to_timestamp<V: ValT>(v: &V) -> bool {
    let r = epoch_to_timestamp(v);
    let ok = r.is_ok();
    core::mem::forget(r);
    ok
}
#[cfg(kani)]
pub(crate) fn verif_timestamp_to_epoch<V: ValT>(ts: Timestamp, frac: bool) -> ValR<V> {
    timestamp_to_epoch(ts, frac)
}
#[cfg(kani)]
pub(crate) fn verif_array_to_datetime<V: ValT>(v: &[V]) -> bool {
    let r = array_to_datetime(v);
    let some = r.is_some();
    core::mem::forget(r);
    some
}
#[cfg(kani)]
pub(crate) fn verif_to_iso8601<V: ValT>(v: &V) -> bool {
    let r = to_iso8601(v);
    let ok = r.is_ok();
    core::mem::forget(r);
    ok
}
#[cfg(kani)]
pub(crate) fn verif_datetime_to_array<V: ValT>(dt: DateTime) -> [V; 8] {
    datetime_to_array(dt)
}
