
//! AnyVal: an abstract ValT instance whose observers return unconstrained values
//! subject only to the documented trait contract (as_isize is Some => is_int).
use crate::{ValT, ValTx};
use alloc::{boxed::Box, string::String, vec::Vec};
use core::cmp::Ordering;
use jaq_core::{path::Opt, val::Range, Error, ValR, ValX};
use jaq_core::box_iter::BoxIter;

#[derive(Clone, Copy, Debug)]
pub struct AnyVal { pub is_int: bool, pub int: Option<isize>, pub flt: Option<f64>, pub made_from: i8 }

impl kani::Arbitrary for AnyVal {
    fn any() -> Self {
        let v = AnyVal { is_int: kani::any(), int: kani::any(), flt: kani::any(), made_from: 0 };
        kani::assume(v.int.is_none() || v.is_int);          // ValT::as_isize doc contract
        kani::assume(!v.is_int || v.flt.is_some());         // integers are numbers
        v
    }
}
fn mk(tag: i8) -> AnyVal { AnyVal { is_int: false, int: None, flt: None, made_from: tag } }

impl core::fmt::Display for AnyVal { fn fmt(&self, _f: &mut core::fmt::Formatter) -> core::fmt::Result { Ok(()) } }
impl PartialEq for AnyVal { fn eq(&self, _o: &Self) -> bool { unreachable!() } }
impl Eq for AnyVal {}
impl PartialOrd for AnyVal { fn partial_cmp(&self, _o: &Self) -> Option<Ordering> { unreachable!() } }
impl Ord for AnyVal { fn cmp(&self, _o: &Self) -> Ordering { unreachable!() } }
impl From<bool> for AnyVal { fn from(_: bool) -> Self { mk(1) } }
impl From<isize> for AnyVal { fn from(i: isize) -> Self { AnyVal { is_int: true, int: Some(i), flt: Some(i as f64), made_from: 2 } } }
impl From<usize> for AnyVal { fn from(_: usize) -> Self { mk(3) } }
impl From<f64> for AnyVal { fn from(f: f64) -> Self { AnyVal { is_int: false, int: None, flt: Some(f), made_from: 4 } } }
impl From<String> for AnyVal { fn from(_: String) -> Self { mk(5) } }
impl From<Range<AnyVal>> for AnyVal { fn from(_: Range<AnyVal>) -> Self { mk(6) } }
impl FromIterator<AnyVal> for AnyVal { fn from_iter<T: IntoIterator<Item = AnyVal>>(_: T) -> Self { mk(7) } }
macro_rules! op { ($t:ident, $m:ident) => { impl core::ops::$t for AnyVal { type Output = ValR<Self>; fn $m(self, _r: Self) -> ValR<Self> { unreachable!() } } } }
op!(Add, add); op!(Sub, sub); op!(Mul, mul); op!(Div, div); op!(Rem, rem);
impl core::ops::Neg for AnyVal { type Output = ValR<Self>; fn neg(self) -> ValR<Self> { unreachable!() } }

impl jaq_core::ValT for AnyVal {
    fn from_num(_n: &str) -> ValR<Self> { Ok(mk(8)) }
    fn from_map<I: IntoIterator<Item = (Self, Self)>>(_iter: I) -> ValR<Self> { unreachable!() }
    fn key_values(self) -> BoxIter<'static, ValR<(Self, Self), Self>> { unreachable!() }
    fn values(self) -> Box<dyn Iterator<Item = ValR<Self>>> { unreachable!() }
    fn index(self, _index: &Self) -> ValR<Self> { unreachable!() }
    fn range(self, _range: Range<&Self>) -> ValR<Self> { unreachable!() }
    fn map_values<'a, I: Iterator<Item = ValX<'a, Self>>>(self, _opt: Opt, _f: impl Fn(Self) -> I) -> ValX<'a, Self> { unreachable!() }
    fn map_index<'a, I: Iterator<Item = ValX<'a, Self>>>(self, _index: &Self, _opt: Opt, _f: impl Fn(Self) -> I) -> ValX<'a, Self> { unreachable!() }
    fn map_range<'a, I: Iterator<Item = ValX<'a, Self>>>(self, _range: Range<&Self>, _opt: Opt, _f: impl Fn(Self) -> I) -> ValX<'a, Self> { unreachable!() }
    fn as_bool(&self) -> bool { unreachable!() }
    fn into_string(self) -> Self { unreachable!() }
}
impl ValT for AnyVal {
    fn into_seq<S: FromIterator<Self>>(self) -> Result<S, Self> { Err(self) }
    fn is_int(&self) -> bool { self.is_int }
    fn as_isize(&self) -> Option<isize> { self.int }
    fn as_f64(&self) -> Option<f64> { self.flt }
    fn is_utf8_str(&self) -> bool { false }
    fn as_bytes(&self) -> Option<&[u8]> { None }
    fn as_sub_str(&self, _sub: &[u8]) -> Self { unreachable!() }
    fn from_utf8_bytes(_b: impl AsRef<[u8]> + Send + 'static) -> Self { mk(9) }
}

pub fn fmt_stub(_args: core::fmt::Arguments<'_>) -> String { String::new() }

#[kani::proof]
#[kani::unwind(6)]
#[kani::stub(alloc::fmt::format, fmt_stub)]
fn implode_never_panics_len2() {
    let xs: [AnyVal; 2] = kani::any();
    let n: usize = kani::any(); kani::assume(n <= 2);
    let r = crate::implode(&xs[..n]);
    core::mem::forget(r);
}

static mut GHOST_US: Option<i64> = None;
fn from_us_stub(us: i64) -> Result<jiff::Timestamp, jiff::Error> { unsafe { GHOST_US = Some(us); } Ok(jiff::Timestamp::UNIX_EPOCH) }

#[kani::proof]
#[kani::unwind(4)]
#[kani::stub(jiff::Timestamp::from_microsecond, from_us_stub)]
#[kani::stub(alloc::fmt::format, fmt_stub)]
fn epoch_scaling_anyval() {
    let v: AnyVal = kani::any();
    let r = crate::time::verif_epoch_us(&v);
    let g = unsafe { GHOST_US };
    if let (Some(us), Some(i)) = (g, v.int) { assert!(us as i128 == i as i128 * 1_000_000); }
    if let (Some(_), None, Some(f)) = (g, v.int, v.flt) { assert!(f.is_finite()); }
    core::mem::forget(r);
}

#[kani::proof]
#[kani::unwind(4)]
#[kani::stub(alloc::fmt::format, fmt_stub)]
fn round_exact_anyval() {
    let v: AnyVal = kani::any();
    kani::assume(!v.is_int);
    let f = v.flt;
    let r = v.round(|x| x); // identity stands for floor/round/ceil outputs: any integral or non-integral float
    if let (Ok(out), Some(f)) = (&r, f) {
        if out.made_from == 2 { assert!(out.int.unwrap() as i128 == f as i128 && (f as i128) as f64 == f || f != (f as i128) as f64); }
    }
    core::mem::forget(r);
}


#[kani::proof]
#[kani::unwind(4)]
#[kani::stub(alloc::fmt::format, fmt_stub)]
fn explode_implode_roundtrip_len3() {
    let b: [u8; 3] = kani::any();
    let n: usize = kani::any(); kani::assume(n <= 2);
    let s = &b[..n];
    let mut codes: [AnyVal; 3] = [mk(0); 3];
    let mut k = 0usize;
    for r in crate::explode::<AnyVal>(s) {
        match r { Ok(v) => { assert!(k < 3); codes[k] = v; k += 1; } Err(_) => assert!(false) }
    }
    let back = crate::implode(&codes[..k]);
    match &back {
        Ok(out) => { assert!(out.len() == n); let mut i = 0; while i < n { assert!(out[i] == s[i]); i += 1; } }
        Err(_) => assert!(false),
    }
    core::mem::forget(back);
}


static mut GHOST_DT: Option<(i16, i8, i8, i8, i8, i8, i32)> = None;
fn dt_new_stub(y: i16, mo: i8, d: i8, h: i8, mi: i8, s: i8, ns: i32) -> Result<jiff::civil::DateTime, jiff::Error> {
    unsafe { GHOST_DT = Some((y, mo, d, h, mi, s, ns)); }
    Ok(jiff::civil::DateTime::constant(2000, 1, 1, 0, 0, 0, 0))
}

#[kani::proof]
#[kani::unwind(7)]
#[kani::stub(jiff::civil::DateTime::new, dt_new_stub)]
fn array_to_datetime_passes_exact_fields() {
    let mut v: [AnyVal; 6] = kani::any();
    v[5] = AnyVal::from(0isize);
    let _r = crate::time::verif_array_to_datetime(&v);
    if let Some((y, mo, d, h, mi, s, _ns)) = unsafe { GHOST_DT } {
        assert!(v[0].int == Some(y as isize));
        assert!(v[1].int.map(|m| m as i128 + 1) == Some(mo as i128));
        assert!(v[2].int == Some(d as isize));
        assert!(v[3].int == Some(h as isize));
        assert!(v[4].int == Some(mi as isize));
        let sec = v[5].flt.unwrap();
        // a second value outside i8 must not be turned into an in-range one
        if sec >= -128.0 && sec < 128.0 { assert!(s as f64 <= sec && sec < s as f64 + 1.0); }
    }
}

#[kani::proof]
#[kani::unwind(4)]
#[kani::stub(alloc::fmt::format, fmt_stub)]
fn round_int_exact() {
    let v: AnyVal = kani::any();
    kani::assume(!v.is_int);
    let y: f64 = kani::any(); // any result of floor/round/ceil
    let f = v.flt;
    let r = v.round(move |_| y);
    if let (Ok(out), Some(_)) = (&r, f) {
        if out.made_from == 2 { assert!(y.is_finite()); if y == (y as i128) as f64 { assert!(out.int.unwrap() as i128 == y as i128); } }
        if out.made_from == 4 { assert!(!y.is_finite()); }
    }
    core::mem::forget(r);
}


// ------------------------------------------------------------------ C12: cmp_by
use jaq_core::box_iter::box_once;
#[kani::proof]
#[kani::unwind(5)]
fn cmp_by_is_left_fold_min() {
    let n: usize = kani::any(); kani::assume(n <= 3);
    let keys: [u8; 3] = kani::any();
    let mut xs: Vec<u8> = Vec::new();
    let mut k = 0u8; while (k as usize) < n { xs.push(k); k += 1; }       // elements are their own index
    let f = move |x: u8| box_once(Ok::<u8, jaq_core::Exn<u8>>(keys[x as usize]));
    // predicate registered for min_by_or_empty: |my, y| y < my
    let r = crate::cmp_by(xs, f, |my: &[u8], y: &[u8]| y < my);
    match r {
        Ok(None) => assert!(n == 0),
        Ok(Some(i)) => {
            let i = i as usize; assert!(i < n);
            let mut j = 0; while j < n { assert!(keys[i] <= keys[j]); if keys[j] == keys[i] { assert!(i <= j); } j += 1; }
        }
        Err(_) => assert!(false),
    }
}
