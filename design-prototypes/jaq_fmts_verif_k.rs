
use crate::write::yaml::must_quote_k as must_quote;
use crate::read::yaml::{parse_int_k as parse_int, parse_float_k as parse_float};

#[kani::proof]
#[kani::unwind(25)]
fn yaml_plain_is_string_len2() {
    let b: [u8; 2] = kani::any();
    kani::assume(b[0] < 128 && b[1] < 128);
    let s = core::str::from_utf8(&b).unwrap();
    if !must_quote(&b) {
        assert!(parse_int(s).is_none());
        assert!(parse_float(s).is_none());
    }
}


#[kani::proof]
#[kani::unwind(3)]
fn cbor_int_header_decodes_exactly() {
    let neg: bool = true;
    let n: u64 = kani::any();
    // stay inside the machine-integer range so that num-bigint is not entered
    kani::assume(n <= i64::MAX as u64);
    let v = core::mem::ManuallyDrop::new(crate::read::cbor::verif_parse_int_header(neg, n));
    let want: i128 = if neg { -1 - n as i128 } else { n as i128 };
    match &*v {
        Some(jaq_json::Val::Num(jaq_json::Num::Int(i))) => assert!(*i as i128 == want),
        _ => assert!(false),
    }
}
