use vstd::prelude::*;
verus! {

// assumed: Rc::from(x) behaves as Rc::new(x)
pub assume_specification<T> [<std::rc::Rc<T> as core::convert::From<T>>::from] (t: T) -> (r: std::rc::Rc<T>)
    ensures *r == t;

pub struct List<T>(std::rc::Rc<Node<T>>);

enum Node<T> {
    Nil,
    Cons(T, List<T>),
}

impl<T> List<T> {
    pub closed spec fn view(&self) -> Seq<T>
        decreases self
    {
        match *self.0 {
            Node::Nil => Seq::empty(),
            Node::Cons(x, xs) => seq![x].add(xs.view()),
        }
    }

    pub fn new() -> (r: Self)
        ensures r.view() == Seq::<T>::empty()
    {
        Self(Node::Nil.into())
    }

    pub fn cons(self, x: T) -> (r: Self)
        ensures r.view() == seq![x].add(self.view())
    {
        Self(Node::Cons(x, self).into())
    }

    pub fn head(&self) -> (r: Option<&T>)
        ensures self.view().len() == 0 ==> r is None,
                self.view().len() > 0 ==> r == Some(&self.view()[0])
    {
        match &*self.0 {
            Node::Nil => None,
            Node::Cons(x, _) => Some(x),
        }
    }

    pub fn get(&self, n: usize) -> (r: Option<&T>)
        ensures n < self.view().len() ==> r == Some(&self.view()[n as int]),
                n >= self.view().len() ==> r is None
    {
        self.skip(n).head()
    }

    pub fn skip(&self, n: usize) -> (r: &Self)
        ensures r.view() == self.view().skip(if n <= self.view().len() { n as int } else { self.view().len() as int })
    {
        let mut cur = self;
        for i in 0..n
            invariant_except_break
                i <= self.view().len(),
                cur.view() == self.view().skip(i as int),
            ensures
                cur.view() == self.view().skip(if n <= self.view().len() { n as int } else { self.view().len() as int }),
        {
            match &*cur.0 {
                Node::Cons(_, xs) => {
                    proof {
                        assert(cur.view() == seq![cur.view()[0]].add(xs.view()));
                        assert(xs.view() == cur.view().skip(1));
                        assert(self.view().skip(i as int).skip(1) == self.view().skip(i as int + 1));
                        assert(cur.view().len() > 0);
                    }
                    cur = xs
                },
                Node::Nil => {
                    proof {
                        assert(cur.view().len() == 0);
                        assert(self.view().skip(i as int).len() == self.view().len() - i);
                    }
                    break
                },
            }
        }
        cur
    }
}
}
fn main() {}
