
use crate::load::parse::BinaryOp;
use crate::load::prec_climb::{self, Associativity, Op, Expr};
use crate::ops::{Math, Cmp};
use alloc::vec::Vec;
use alloc::boxed::Box;

fn any_math() -> Math { match kani::any::<u8>() % 5 { 0 => Math::Add, 1 => Math::Sub, 2 => Math::Mul, 3 => Math::Div, _ => Math::Rem } }
fn any_cmp() -> Cmp { match kani::any::<u8>() % 6 { 0 => Cmp::Lt, 1 => Cmp::Le, 2 => Cmp::Gt, 3 => Cmp::Ge, 4 => Cmp::Eq, _ => Cmp::Ne } }
fn any_op() -> BinaryOp<u8> {
    match kani::any::<u8>() % 11 {
        0 => BinaryOp::Pipe(None),
        1 => BinaryOp::Pipe(Some(crate::load::parse::Pattern::Var(kani::any()))),
        2 => BinaryOp::Comma,
        3 => BinaryOp::Alt,
        4 => BinaryOp::Or,
        5 => BinaryOp::And,
        6 => BinaryOp::Math(any_math()),
        7 => BinaryOp::Cmp(any_cmp()),
        8 => BinaryOp::Assign,
        9 => BinaryOp::Update,
        _ => if kani::any() { BinaryOp::UpdateMath(any_math()) } else { BinaryOp::UpdateAlt },
    }
}

/// rank in the manual's table
fn spec_rank(op: &BinaryOp<u8>) -> usize {
    match op {
        BinaryOp::Pipe(None) => 0,
        BinaryOp::Comma => 1,
        BinaryOp::Pipe(Some(_)) => 2,
        BinaryOp::Assign | BinaryOp::Update | BinaryOp::UpdateMath(_) | BinaryOp::UpdateAlt => 3,
        BinaryOp::Alt => 4,
        BinaryOp::Or => 5,
        BinaryOp::And => 6,
        BinaryOp::Cmp(Cmp::Eq | Cmp::Ne) => 7,
        BinaryOp::Cmp(_) => 8,
        BinaryOp::Math(Math::Add | Math::Sub) => 9,
        BinaryOp::Math(Math::Mul | Math::Div) => 10,
        BinaryOp::Math(Math::Rem) => 11,
    }
}

#[kani::proof]
#[kani::unwind(8)]
fn precedence_table() {
    let a = core::mem::ManuallyDrop::new(any_op());
    let b = core::mem::ManuallyDrop::new(any_op());
    // order-isomorphic to the manual's table
    assert!((a.precedence() < b.precedence()) == (spec_rank(&a) < spec_rank(&b)));
    assert!((a.precedence() == b.precedence()) == (spec_rank(&a) == spec_rank(&b)));
    let right = matches!(a.associativity(), Associativity::Right);
    assert!(right == matches!(*a, BinaryOp::Pipe(_) | BinaryOp::Assign | BinaryOp::Update | BinaryOp::UpdateMath(_) | BinaryOp::UpdateAlt));
}

// ---- laziness: next_if_one ----
pub struct Counting { pub len: u8, pub pulled: u8, pub hint_hi: Option<usize> }
impl Iterator for Counting {
    type Item = u8;
    fn next(&mut self) -> Option<u8> {
        if self.pulled < self.len { self.pulled += 1; Some(self.pulled) } else { if self.pulled < 250 { self.pulled += 1; } None }
    }
    fn size_hint(&self) -> (usize, Option<usize>) { (0, self.hint_hi) }
}

// ---- stack ----
use core::ops::ControlFlow;
#[kani::proof]
#[kani::unwind(6)]
fn stack_next_does_not_keep_exhausted() {
    // iterators are ranges (exact size_hint)
    let a: u8 = kani::any(); let b: u8 = kani::any();
    kani::assume(a <= 2 && b <= 2);
    let v: Vec<core::ops::Range<u8>> = Vec::from([0..a, 0..b]);
    let mut st = crate::Stack::new(v, |x: u8| -> ControlFlow<u8, core::ops::Range<u8>> { ControlFlow::Break(x) });
    let before = 2usize;
    let r = st.next();
    let after = st.len_k();
    assert!(after <= before);
    if r.is_some() { /* top that produced it is kept only if it has more */ }
    // every retained iterator is non-exhausted except possibly ones never inspected
}


// ------------------------------------------------------------------ C03: pull counts
#[kani::proof]
#[kani::unwind(5)]
fn next_if_one_pulls_nothing_extra() {
    let len: u8 = kani::any();
    kani::assume(len <= 3);
    // honest hint: upper bound >= remaining length (or None)
    let hi: Option<usize> = if kani::any() { let h: usize = kani::any(); kani::assume(h >= len as usize && h <= 4); Some(h) } else { None };
    let mut it = Counting { len, pulled: 0, hint_hi: hi };
    let r = crate::box_iter::verif_next_if_one(&mut it);
    match r {
        None => {
            // either hint was not Some(1) -> nothing pulled; or hint Some(1) and stream empty -> one pull that returned None
            if hi != Some(1) { assert!(it.pulled == 0); } else { assert!(len == 0 && it.pulled == 1); }
        }
        Some(x) => { assert!(hi == Some(1) && len == 1 && x == 1); }
    }
}

// ------------------------------------------------------------------ C11: fold engine (reduce)
use crate::box_iter::Results;
fn upd(x: u8, acc: u8, mult: u8, bad: bool) -> Results<'static, u8, u8> {
    // yields `mult` outputs acc+x, acc+x+1, ... ; the last one replaced by Err if `bad`
    let mut v: Vec<Result<u8, u8>> = Vec::new();
    let mut k = 0u8;
    while k < mult { v.push(Ok(acc.wrapping_mul(3).wrapping_add(x).wrapping_add(k))); k += 1; }
    if bad { v.push(Err(x)); }
    Box::new(v.into_iter())
}
fn spec_reduce(xs: &[Result<u8,u8>], acc: u8, mult: u8, bad_at: u8, pos: u8, out: &mut Vec<Result<u8,u8>>) -> bool {
    // returns false if an error ended the stream
    if xs.is_empty() { out.push(Ok(acc)); return true; }
    match xs[0] {
        Err(e) => { out.push(Err(e)); false }
        Ok(x) => {
            let mut k = 0u8;
            while k < mult {
                let y = acc.wrapping_mul(3).wrapping_add(x).wrapping_add(k);
                if !spec_reduce(&xs[1..], y, mult, bad_at, pos + 1, out) { return false; }
                k += 1;
            }
            if bad_at == pos { out.push(Err(x)); return false; }
            true
        }
    }
}

#[kani::proof]
#[kani::unwind(8)]
fn fold_reduce_equals_nested_expansion() {
    let n: u8 = kani::any(); kani::assume(n <= 2);
    let a: u8 = kani::any(); let b: u8 = kani::any();
    let a_err: bool = kani::any(); let b_err: bool = kani::any();
    let mut xs: Vec<Result<u8,u8>> = Vec::new();
    if n >= 1 { xs.push(if a_err { Err(a) } else { Ok(a) }); }
    if n >= 2 { xs.push(if b_err { Err(b) } else { Ok(b) }); }
    let mult: u8 = kani::any(); kani::assume(mult <= 2);
    let bad_at: u8 = kani::any(); kani::assume(bad_at <= 2);
    let init: u8 = kani::any();
    let mut want = Vec::new();
    spec_reduce(&xs, init, mult, bad_at, 0, &mut want);
    // real engine; position of x is recovered from identity with a/b is not possible, so encode pos in closure via counter-free trick:
    let xs2 = xs.clone();
    let f = move |x: u8, acc: u8| {
        // pos = index of first element equal to x among Ok elements (a,b distinct assumed below)
        let pos = if !xs2.is_empty() && xs2[0] == Ok(x) { 0 } else { 1 };
        upd(x, acc, mult, bad_at == pos)
    };
    kani::assume(a != b);
    let got: Vec<Result<u8,u8>> = crate::fold::fold(xs.clone().into_iter(), init, f, |_| (), |_, _| None, Some).collect();
    // the real stream does not stop by itself after an error; compare up to and including first error
    let mut i = 0;
    while i < want.len() { assert!(i < got.len() && got[i] == want[i]); i += 1; }
    if want.iter().all(|r| r.is_ok()) { assert!(got.len() == want.len()); }
}


// ------------------------------------------------------------------ IntVal: exact integer ValT instance for the generic interpreter
use crate::{ValR, ValX, ValT, Error};
use crate::val::Range as VRange;
use crate::path::Opt;
use alloc::string::String;

#[derive(Clone, Copy, Debug, PartialEq, PartialOrd)]
pub struct IntVal(pub i64);
impl core::fmt::Display for IntVal { fn fmt(&self, _f: &mut core::fmt::Formatter) -> core::fmt::Result { Ok(()) } }
impl From<bool> for IntVal { fn from(b: bool) -> Self { IntVal(b as i64) } }
impl From<isize> for IntVal { fn from(i: isize) -> Self { IntVal(i as i64) } }
impl From<String> for IntVal { fn from(_: String) -> Self { IntVal(-7777) } }
impl From<VRange<IntVal>> for IntVal { fn from(_: VRange<IntVal>) -> Self { unreachable!() } }
impl FromIterator<IntVal> for IntVal { fn from_iter<T: IntoIterator<Item = IntVal>>(_: T) -> Self { unreachable!() } }
impl core::ops::Add for IntVal { type Output = ValR<Self>; fn add(self, r: Self) -> ValR<Self> { self.0.checked_add(r.0).map(IntVal).ok_or(Error::new(IntVal(-1))) } }
impl core::ops::Sub for IntVal { type Output = ValR<Self>; fn sub(self, r: Self) -> ValR<Self> { self.0.checked_sub(r.0).map(IntVal).ok_or(Error::new(IntVal(-2))) } }
impl core::ops::Mul for IntVal { type Output = ValR<Self>; fn mul(self, _r: Self) -> ValR<Self> { unreachable!() } }
impl core::ops::Div for IntVal { type Output = ValR<Self>; fn div(self, _r: Self) -> ValR<Self> { unreachable!() } }
impl core::ops::Rem for IntVal { type Output = ValR<Self>; fn rem(self, _r: Self) -> ValR<Self> { unreachable!() } }
impl core::ops::Neg for IntVal { type Output = ValR<Self>; fn neg(self) -> ValR<Self> { unreachable!() } }
impl ValT for IntVal {
    fn from_num(_n: &str) -> ValR<Self> { unreachable!() }
    fn from_map<I: IntoIterator<Item = (Self, Self)>>(_iter: I) -> ValR<Self> { unreachable!() }
    fn key_values(self) -> crate::box_iter::BoxIter<'static, ValR<(Self, Self), Self>> { unreachable!() }
    fn values(self) -> Box<dyn Iterator<Item = ValR<Self>>> { unreachable!() }
    fn index(self, _index: &Self) -> ValR<Self> { unreachable!() }
    fn range(self, _range: VRange<&Self>) -> ValR<Self> { unreachable!() }
    fn map_values<'a, I: Iterator<Item = ValX<'a, Self>>>(self, _opt: Opt, _f: impl Fn(Self) -> I) -> ValX<'a, Self> { unreachable!() }
    fn map_index<'a, I: Iterator<Item = ValX<'a, Self>>>(self, _index: &Self, _opt: Opt, _f: impl Fn(Self) -> I) -> ValX<'a, Self> { unreachable!() }
    fn map_range<'a, I: Iterator<Item = ValX<'a, Self>>>(self, _range: VRange<&Self>, _opt: Opt, _f: impl Fn(Self) -> I) -> ValX<'a, Self> { unreachable!() }
    fn as_bool(&self) -> bool { self.0 != 0 }
    fn into_string(self) -> Self { unreachable!() }
}

use crate::compile::{Lut, Term, TermId};
use crate::data::JustLut;
type D = JustLut<IntVal>;

/// `limit($n; 10, 20, 30)` through the real native and the real interpreter, for every n.
#[kani::proof]
#[kani::unwind(6)]
fn limit_native_all_n() {
    let run_paths = crate::funs::paths::<D>();
    let funs: Vec<crate::Native<D>> = run_paths.into_vec().into_iter().map(|f| crate::native::paths::<D>(f).2).collect();
    // terms: 0: Int 10, 1: Int 20, 2: Int 30, 3: Comma(1,2), 4: Comma(0,3)  == 10,(20,30)
    let terms = Vec::from([Term::Int(10), Term::Int(20), Term::Int(30), Term::Comma(TermId(1), TermId(2)), Term::Comma(TermId(0), TermId(3))]);
    let lut: crate::Lut<D> = Lut { terms, funs };
    let n: i64 = kani::any();
    let ctx = crate::Ctx::<D>::new(&lut, crate::Vars::new([]));
    // native calling convention: variables/functions bound in signature order [Var n, Fun f]
    let fc = ctx.clone();
    let cv = (ctx.verif_cons_var(IntVal(n)).verif_cons_fun((TermId(4), fc)), IntVal(0));
    let limit = lut.funs[2].verif_run();
    let mut out = limit(cv);
    let want: usize = if n <= 0 { 0 } else if n >= 3 { 3 } else { n as usize };
    let mut k = 0usize;
    while k < want {
        match out.next() { Some(Ok(IntVal(x))) => assert!(x == 10 * (k as i64 + 1)), _ => assert!(false) }
        k += 1;
    }
    assert!(out.next().is_none());
    core::mem::forget(out);
}


// ------------------------------------------------------------------ C01/C16: variable resolution
use crate::compile::Compiler;
#[kani::proof]
#[kani::unwind(5)]
fn var_resolves_to_nearest_binding() {
    let names = ["$a", "$b"];
    let mut c = Compiler::<&'static str, ()>::default();
    // push up to 3 variable binders with symbolic names
    let n: usize = kani::any(); kani::assume(n <= 3);
    let pick: [bool; 3] = kani::any();
    let mut k = 0; while k < n { c.verif_push_var(names[pick[k] as usize]); k += 1; }
    let q: bool = kani::any();
    let t = core::mem::ManuallyDrop::new(c.verif_var(names[q as usize]));
    // spec: distance (0-based) from the top of the binder stack to the innermost binder with that name
    let mut want: Option<usize> = None;
    let mut d = 0; while d < n { let idx = n - 1 - d; if want.is_none() && pick[idx] == q { want = Some(d); } d += 1; }
    match (&*t, want) {
        (Term::Var(i), Some(w)) => assert!(*i == w),
        (_, None) => assert!(c.verif_errs() == 1),
        _ => assert!(false),
    }
    core::mem::forget(c);
}


// ------------------------------------------------------------------ C16: imported / global variable numbering (no local binders)
#[kani::proof]
#[kani::unwind(4)]
fn var_numbering_imported_global() {
    let names = ["$a", "$b"];
    let mut c = Compiler::<&'static str, ()>::default();
    // two data imports (module ids symbolic in {0,1}) and two globals, names symbolic
    let iv: [bool; 2] = kani::any(); let im: [bool; 2] = kani::any(); let gv: [bool; 2] = kani::any();
    let cur: bool = kani::any(); // current module id (0 or 1)
    c.verif_set_vars(
        Vec::from([(names[iv[0] as usize], im[0] as usize), (names[iv[1] as usize], im[1] as usize)]),
        Vec::from([names[gv[0] as usize], names[gv[1] as usize]]),
        cur as usize,
    );
    let q: bool = kani::any();
    let t = core::mem::ManuallyDrop::new(c.verif_var(names[q as usize]));
    // run-time vector, most recent first: imported[1], imported[0], global[1], global[0]
    // spec: last import with that name *of the current module*, else last global with that name
    let want: Option<usize> =
        if iv[1] == q && im[1] == cur { Some(0) }
        else if iv[0] == q && im[0] == cur { Some(1) }
        else if gv[1] == q { Some(2) }
        else if gv[0] == q { Some(3) }
        else { None };
    match (&*t, want) {
        (Term::Var(i), Some(w)) => assert!(*i == w),
        (_, None) => assert!(c.verif_errs() == 1),
        _ => assert!(false),
    }
    core::mem::forget(c);
}

// ------------------------------------------------------------------ C15: climb on two operators
use crate::load::parse::Term as PTerm;
fn leaf(n: &'static str) -> PTerm<&'static str> { PTerm::Var(n) }
fn shape(t: &PTerm<&'static str>) -> u8 {
    // 1 = (x op1 y) op2 z ; 2 = x op1 (y op2 z) ; 0 = other
    match t {
        PTerm::BinOp(l, _, r) => match (&**l, &**r) {
            (PTerm::BinOp(..), PTerm::Var(_)) => 1,
            (PTerm::Var(_), PTerm::BinOp(..)) => 2,
            _ => 0,
        },
        _ => 0,
    }
}
fn any_op_str() -> BinaryOp<&'static str> {
    match kani::any::<u8>() % 10 {
        0 => BinaryOp::Pipe(None),
        1 => BinaryOp::Comma,
        2 => BinaryOp::Alt,
        3 => BinaryOp::Or,
        4 => BinaryOp::And,
        5 => BinaryOp::Math(any_math()),
        6 => BinaryOp::Cmp(any_cmp()),
        7 => BinaryOp::Assign,
        8 => BinaryOp::Update,
        _ => if kani::any() { BinaryOp::UpdateMath(any_math()) } else { BinaryOp::UpdateAlt },
    }
}
#[kani::proof]
#[kani::unwind(9)]
fn climb_two_ops() {
    let o1 = any_op_str(); let o2 = any_op_str();
    let (p1, p2) = (o1.precedence(), o2.precedence());
    let right1 = matches!(o1.associativity(), Associativity::Right);
    let tail = Vec::from([(o1, leaf("$y")), (o2, leaf("$z"))]);
    let mut it = core::mem::ManuallyDrop::new(tail.into_iter());
    let t = core::mem::ManuallyDrop::new(leaf("$x").verif_climb(&mut *it));
    let want = if p2 > p1 || (p2 == p1 && right1) { 2 } else { 1 };
    assert!(shape(&*t) == want);
}


#[kani::proof]
#[kani::unwind(5)]
fn range_equals_while_definition() {
    let from: i64 = kani::any(); let to: i64 = kani::any(); let by: i64 = kani::any();
    let mut it = crate::funs::verif_range(IntVal(from), IntVal(to), IntVal(by));
    // spec: x = from; while (by>0 ? x<to : by<0 ? x>to : x!=to) { yield x; x += by (checked: error ends the stream after being yielded) }
    let mut x: i128 = from as i128;
    let mut k = 0;
    while k < 3 {
        let go = if by > 0 { x < to as i128 } else if by < 0 { x > to as i128 } else { x != to as i128 };
        let got = it.next();
        if !go { assert!(got.is_none()); break; }
        match got { Some(Ok(IntVal(y))) => assert!(y as i128 == x), _ => assert!(false) }
        x += by as i128;
        if x > i64::MAX as i128 || x < i64::MIN as i128 {
            // the overflowing addition is delivered once as an error, then the stream ends
            match it.next() { Some(Err(_)) => (), _ => assert!(false) }
            assert!(it.next().is_none());
            break;
        }
        k += 1;
    }
    core::mem::forget(it);
}


fn prec_table(op: &BinaryOp<&'static str>) -> usize {
    match op {
        BinaryOp::Pipe(None) => 0,
        BinaryOp::Comma => 1,
        BinaryOp::Pipe(Some(_)) => 2,
        BinaryOp::Assign | BinaryOp::Update | BinaryOp::UpdateMath(_) | BinaryOp::UpdateAlt => 3,
        BinaryOp::Alt => 4,
        BinaryOp::Or => 5,
        BinaryOp::And => 6,
        BinaryOp::Cmp(Cmp::Eq | Cmp::Ne) => 7,
        BinaryOp::Cmp(_) => 8,
        BinaryOp::Math(Math::Add | Math::Sub) => 9,
        BinaryOp::Math(Math::Mul | Math::Div) => 10,
        BinaryOp::Math(Math::Rem) => 11,
    }
}

#[kani::proof]
#[kani::unwind(7)]
fn climb_two_ops_modular() {
    let o1 = any_op_str(); let o2 = any_op_str();
    let (p1, p2) = (prec_table(&o1), prec_table(&o2));
    let right1 = matches!(o1.associativity(), Associativity::Right);
    let tail = Vec::from([(o1, leaf("$y")), (o2, leaf("$z"))]);
    let mut it = core::mem::ManuallyDrop::new(tail.into_iter());
    let t = core::mem::ManuallyDrop::new(leaf("$x").verif_climb(&mut *it));
    let want = if p2 > p1 || (p2 == p1 && right1) { 2 } else { 1 };
    assert!(shape(&*t) == want);
}


fn op_of(k: usize) -> BinaryOp<&'static str> {
    match k {
        0 => BinaryOp::Pipe(None), 1 => BinaryOp::Comma, 2 => BinaryOp::Assign, 3 => BinaryOp::Alt, 4 => BinaryOp::Or,
        5 => BinaryOp::And, 6 => BinaryOp::Cmp(Cmp::Eq), 7 => BinaryOp::Cmp(Cmp::Lt), 8 => BinaryOp::Math(Math::Add),
        9 => BinaryOp::Math(Math::Mul), _ => BinaryOp::Math(Math::Rem),
    }
}
#[kani::proof]
#[kani::unwind(12)]
fn climb_two_ops_enumerated() {
    let mut a = 0;
    while a < 11 {
        let mut b = 0;
        while b < 11 {
            let (o1, o2) = (op_of(a), op_of(b));
            let (p1, p2) = (prec_table(&o1), prec_table(&o2));
            let right1 = matches!(o1.associativity(), Associativity::Right);
            let tail = Vec::from([(o1, leaf("$y")), (o2, leaf("$z"))]);
            let mut it = core::mem::ManuallyDrop::new(tail.into_iter());
            let t = core::mem::ManuallyDrop::new(leaf("$x").verif_climb(&mut *it));
            let want = if p2 > p1 || (p2 == p1 && right1) { 2 } else { 1 };
            assert!(shape(&*t) == want);
            b += 1;
        }
        a += 1;
    }
}


#[kani::proof]
#[kani::unwind(8)]
fn climb_one_concrete_pair() {
    let (o1, o2) = (op_of(8), op_of(9)); // x + y * z
    let tail = Vec::from([(o1, leaf("$y")), (o2, leaf("$z"))]);
    let mut it = core::mem::ManuallyDrop::new(tail.into_iter());
    let t = core::mem::ManuallyDrop::new(leaf("$x").verif_climb(&mut *it));
    assert!(shape(&*t) == 2);
}


// abstract expression type for the generic climb: records the bracketing only
#[derive(Clone, Copy)]
pub struct Br { lo: u8, hi: u8, left_is_op: bool, right_is_op: bool, leaf: bool }
impl Expr<BinaryOp<&'static str>> for Br {
    fn from_op(l: Self, op: BinaryOp<&'static str>, r: Self) -> Self {
        core::mem::forget(op);
        Br { lo: l.lo, hi: r.hi, left_is_op: !l.leaf, right_is_op: !r.leaf, leaf: false }
    }
}
fn lf(i: u8) -> Br { Br { lo: i, hi: i, left_is_op: false, right_is_op: false, leaf: true } }

#[kani::proof]
#[kani::unwind(8)]
fn climb_generic_two_ops() {
    let a: usize = kani::any(); let b: usize = kani::any();
    kani::assume(a < 11 && b < 11);
    let (o1, o2) = (op_of(a), op_of(b));
    let (p1, p2) = (prec_table(&o1), prec_table(&o2));
    let right1 = matches!(o1.associativity(), Associativity::Right);
    let t = prec_climb::climb(lf(0), [(o1, lf(1)), (o2, lf(2))]);
    // x o1 (y o2 z)  iff  o2 binds tighter, or equal and right-associative
    let want_right = p2 > p1 || (p2 == p1 && right1);
    assert!(t.lo == 0 && t.hi == 2 && !t.leaf);
    assert!(t.right_is_op == want_right && t.left_is_op == !want_right);
}


// abstract operator: any precedence, any associativity
#[derive(Clone, Copy)]
pub struct AbsOp { prec: usize, right: bool }
impl Op for AbsOp {
    fn precedence(&self) -> usize { self.prec }
    fn associativity(&self) -> Associativity { if self.right { Associativity::Right } else { Associativity::Left } }
}
impl Expr<AbsOp> for Br {
    fn from_op(l: Self, _op: AbsOp, r: Self) -> Self {
        Br { lo: l.lo, hi: r.hi, left_is_op: !l.leaf, right_is_op: !r.leaf, leaf: false }
    }
}

#[kani::proof]
#[kani::unwind(4)]
fn climb_abstract_two_ops() {
    let o1 = AbsOp { prec: kani::any(), right: kani::any() };
    let o2 = AbsOp { prec: kani::any(), right: kani::any() };
    kani::assume(o1.prec < 16 && o2.prec < 16);
    // operators of equal precedence share their associativity (true of the real table)
    kani::assume(o1.prec != o2.prec || o1.right == o2.right);
    let t = prec_climb::climb(lf(0), [(o1, lf(1)), (o2, lf(2))]);
    let want_right = o2.prec > o1.prec || (o2.prec == o1.prec && o1.right);
    assert!(t.lo == 0 && t.hi == 2 && !t.leaf);
    assert!(t.right_is_op == want_right && t.left_is_op == !want_right);
}
