// NOT REGISTERED: > 420 s under Kani 0.68 with either solver (2026-09-23); see DESIGN.md 9.2 / 9.3
// measured: Zoned::new on constants alone > 200 s; replacing it by `unsafe { core::mem::zeroed::<jiff::Zoned>() }`
// (tag 0 = STATIC_TZIF, no destructor; never read because Zoned::timestamp is stubbed) still > 330 s.
/// `mktime` = `timestamp_to_epoch` o jiff o `array_to_datetime`: the decision "whole or fractional"
/// is taken in `mktime` itself from `Timestamp::subsec_nanosecond`, which jiff documents as
/// carrying the SIGN of the timestamp (negative before 1970).  From the property ("`gmtime |
/// mktime` returns the original instant, to the microsecond for fractional times"): an integer
/// result is only allowed when the instant has no microsecond fraction, on either side of 1970.
/// jiff's accessors are replaced by symbolic ghost values tied by their documented relation
/// (assumed contract of the dependency): sign(ns) agrees with sign(s), |ns| < 10^9,
/// as_microsecond = s * 10^6 + ns / 1000 (truncating).
static mut GHOST_NS: i32 = 0;
fn subsec_ns_stub(_t: jiff::Timestamp) -> i32 {
    unsafe { GHOST_NS }
}
fn to_zoned_stub(_dt: jiff::civil::DateTime, tz: jiff::tz::TimeZone) -> Result<jiff::Zoned, jiff::Error> {
    Ok(jiff::Zoned::new(jiff::Timestamp::UNIX_EPOCH, tz))
}
fn zoned_ts_stub(_z: &jiff::Zoned) -> jiff::Timestamp {
    jiff::Timestamp::UNIX_EPOCH
}
#[kani::proof]
#[kani::unwind(8)]
#[kani::stub(jiff::civil::DateTime::new, dt_new_stub)]
#[kani::stub(jiff::civil::DateTime::to_zoned, to_zoned_stub)]
#[kani::stub(jiff::Zoned::timestamp, zoned_ts_stub)]
#[kani::stub(jiff::Timestamp::subsec_nanosecond, subsec_ns_stub)]
#[kani::stub(jiff::Timestamp::as_second, as_second_stub)]
#[kani::stub(jiff::Timestamp::as_microsecond, as_microsecond_stub)]
#[kani::stub(alloc::fmt::format, fmt_stub)]
fn c20_mktime_fraction() {
    let (s, ns): (i64, i32) = kani::any();
    kani::assume(-377705023201 <= s && s <= 253402207200);
    kani::assume(-1_000_000_000 < ns && ns < 1_000_000_000);
    kani::assume(!(s > 0 && ns < 0) && !(s < 0 && ns > 0));
    let us = s * 1_000_000 + (ns / 1000) as i64;
    unsafe {
        GHOST_TS = (s, us);
        GHOST_NS = ns;
    }
    static ARR: [AnyVal; 6] = [
        AnyVal { is_int: true, int: Some(2000), flt: Some(2000.0), made_from: 2, arr: None },
        AnyVal { is_int: true, int: Some(0), flt: Some(0.0), made_from: 2, arr: None },
        AnyVal { is_int: true, int: Some(1), flt: Some(1.0), made_from: 2, arr: None },
        AnyVal { is_int: true, int: Some(0), flt: Some(0.0), made_from: 2, arr: None },
        AnyVal { is_int: true, int: Some(0), flt: Some(0.0), made_from: 2, arr: None },
        AnyVal { is_int: true, int: Some(0), flt: Some(0.0), made_from: 2, arr: None },
    ];
    let v = AnyVal { is_int: false, int: None, flt: None, made_from: 0, arr: Some(&ARR) };
    kani::cover!(s == 0 && ns == -500_000_000);
    kani::cover!(s == -1 && ns == -500_000_000);
    kani::cover!(s == 1 && ns == 500_000_000);
    kani::cover!(ns == 0);
    let r = MD::new(crate::time::mktime(&v));
    match &*r {
        Ok(out) => match out.made_from {
            // an integer answer must be the instant itself
            2 => assert!(out.int.unwrap() as i128 * 1_000_000 == us as i128),
            // a fractional answer: its value is microseconds / 10^6 by O-C20-back
            4 => (),
            _ => assert!(false),
        },
        Err(_) => assert!(false),
    }
}

