use super::*;
use crate::num::PosUsize;

#[kani::proof]
fn skip_take_in_bounds() {
    let s: Option<PosUsize> = if kani::any() { Some(PosUsize(kani::any(), kani::any())) } else { None };
    let e: Option<PosUsize> = if kani::any() { Some(PosUsize(kani::any(), kani::any())) } else { None };
    let len: usize = kani::any();
    let (skip, take) = skip_take(s..e, len);
    assert!(skip <= len);
    assert!(skip + take <= len);
}

#[kani::proof]
fn float_cmp_total() {
    let a: f64 = kani::any();
    let b: f64 = kani::any();
    let c: f64 = kani::any();
    kani::assume(!a.is_nan() && !b.is_nan() && !c.is_nan());
    use core::cmp::Ordering::*;
    let ab = crate::num::float_cmp_k(a, b);
    let ba = crate::num::float_cmp_k(b, a);
    assert!(ab == ba.reverse());
    let bc = crate::num::float_cmp_k(b, c);
    let ac = crate::num::float_cmp_k(a, c);
    if ab != Greater && bc != Greater { assert!(ac != Greater); }
}

/// Hasher that records the first bytes written; hash coherence is then stated over the byte stream,
/// which is stronger than (and independent of) any particular hash function.
#[derive(Default, Clone, Copy, PartialEq, Eq)]
pub struct Rec { buf: [u8; 24], n: usize }
impl core::hash::Hasher for Rec {
    fn finish(&self) -> u64 { 0 }
    fn write(&mut self, bytes: &[u8]) {
        let mut i = 0;
        while i < bytes.len() {
            if self.n < 24 { self.buf[self.n] = bytes[i]; }
            self.n += 1;
            i += 1;
        }
    }
}

#[kani::proof]
#[kani::unwind(34)]
fn num_float_eq_implies_same_hash() {
    let a: f64 = kani::any();
    let b: f64 = kani::any();
    let (x, y) = (Num::Float(a), Num::Float(b));
    let mut hx = Rec::default();
    let mut hy = Rec::default();
    x.hash(&mut hx);
    y.hash(&mut hy);
    if x == y { assert!(hx == hy); }
}

#[kani::proof]
#[kani::unwind(34)]
fn num_int_float_eq_implies_same_hash() {
    let a: isize = kani::any();
    let b: f64 = kani::any();
    let (x, y) = (Num::Int(a), Num::Float(b));
    let mut hx = Rec::default();
    let mut hy = Rec::default();
    x.hash(&mut hx);
    y.hash(&mut hy);
    if x == y { assert!(hx == hy); }
}

pub fn wrap_spec(pos: bool, n: usize, len: usize) -> Option<usize> {
    if pos { Some(n) } else if n <= len { Some(len - n) } else { None }
}
pub fn abs_bound_spec(i: Option<PosUsize>, len: usize, default: usize) -> usize {
    match i {
        None => default,
        Some(p) => match wrap_spec(p.0, p.1, len) { None => 0, Some(x) => if x < len { x } else { len } },
    }
}

#[kani::proof_for_contract(PosUsize::wrap)]
fn wrap_contract() {
    let p: PosUsize = kani::any();
    p.wrap(kani::any());
}

#[kani::proof_for_contract(abs_bound)]
#[kani::stub_verified(PosUsize::wrap)]
fn abs_bound_contract() {
    let i: Option<PosUsize> = kani::any();
    abs_bound(i, kani::any(), kani::any());
}

#[kani::proof]
#[kani::stub_verified(abs_bound)]
fn skip_take_model() {
    let s: Option<PosUsize> = kani::any();
    let e: Option<PosUsize> = kani::any();
    let len: usize = kani::any();
    let (skip, take) = skip_take(s..e, len);
    let from = abs_bound_spec(s, len, 0);
    let upto = abs_bound_spec(e, len, len);
    assert!(skip == from);
    assert!(take == if upto >= from { upto - from } else { 0 });
    assert!(skip + take <= len);
}

fn num_as_i128_2(n: &Num) -> Option<i128> {
    match n {
        Num::Int(i) => Some(*i as i128),
        Num::BigInt(b) => num_traits::cast::ToPrimitive::to_i128(&**b),
        _ => None,
    }
}

#[kani::proof]
#[kani::unwind(6)]
fn int_add_exact() {
    let x: isize = kani::any();
    let y: isize = kani::any();
    let r = Num::Int(x) + Num::Int(y);
    assert!(num_as_i128_2(&r) == Some(x as i128 + y as i128));
}

#[kani::proof]
#[kani::unwind(6)]
fn int_sub_exact() {
    let x: isize = kani::any();
    let y: isize = kani::any();
    let r = Num::Int(x) - Num::Int(y);
    assert!(num_as_i128_2(&r) == Some(x as i128 - y as i128));
}

#[kani::proof]
#[kani::unwind(6)]
fn int_neg_exact() {
    let x: isize = kani::any();
    let r = -Num::Int(x);
    assert!(num_as_i128_2(&r) == Some(-(x as i128)));
}

#[kani::proof]
#[kani::unwind(6)]
fn int_mul_exact() {
    let x: isize = kani::any();
    let y: isize = kani::any();
    let r = Num::Int(x) * Num::Int(y);
    assert!(num_as_i128_2(&r) == Some(x as i128 * y as i128));
}

pub unsafe fn addcarry_stub(c_in: u8, a: u64, b: u64, out: &mut u64) -> u8 {
    let s = a as u128 + b as u128 + (c_in != 0) as u128;
    *out = s as u64;
    (s >> 64) as u8
}
pub unsafe fn subborrow_stub(c_in: u8, a: u64, b: u64, out: &mut u64) -> u8 {
    let s = (a as i128) - (b as i128) - ((c_in != 0) as i128);
    *out = s as u64;
    (s < 0) as u8
}

#[kani::proof]
#[kani::unwind(6)]
#[kani::stub(core::arch::x86_64::_addcarry_u64, addcarry_stub)]
#[kani::stub(core::arch::x86_64::_subborrow_u64, subborrow_stub)]
fn int_add_exact2() {
    let x: isize = kani::any();
    let y: isize = kani::any();
    let r = Num::Int(x) + Num::Int(y);
    assert!(num_as_i128_2(&r) == Some(x as i128 + y as i128));
}

pub fn fmt_stub(_args: core::fmt::Arguments<'_>) -> alloc::string::String { alloc::string::String::new() }

#[kani::proof]
#[kani::unwind(4)]
#[kani::stub(alloc::fmt::format, fmt_stub)]
fn epoch_int_scaling_exact() {
    let i: isize = kani::any();
    let v = Val::Num(Num::Int(i));
    match jaq_std::verif_epoch_us(&v) {
        Some(us) => assert!(us as i128 == i as i128 * 1_000_000),
        None => (),
    }
}

static mut GHOST_US: Option<i64> = None;
fn from_us_stub(us: i64) -> Result<jiff::Timestamp, jiff::Error> {
    unsafe { GHOST_US = Some(us); }
    Ok(jiff::Timestamp::UNIX_EPOCH)
}

#[kani::proof]
#[kani::unwind(4)]
#[kani::stub(jiff::Timestamp::from_microsecond, from_us_stub)]
fn epoch_int_scaling_exact2() {
    let i: isize = kani::any();
    let v = Val::Num(Num::Int(i));
    let r = jaq_std::verif_epoch_us(&v);
    let g = unsafe { GHOST_US };
    match g {
        Some(us) => assert!(us as i128 == i as i128 * 1_000_000),
        None => assert!(r.is_none()),
    }
}

fn as_f64_stub(n: &Num) -> f64 { match n { Num::Int(i) => *i as f64, Num::Float(f) => *f, _ => kani::any() } }

#[kani::proof]
#[kani::unwind(4)]
#[kani::stub(jiff::Timestamp::from_microsecond, from_us_stub)]
#[kani::stub(crate::num::Num::as_f64, as_f64_stub)]
fn epoch_int_scaling_exact3() {
    let i: isize = kani::any();
    let v = core::mem::ManuallyDrop::new(Val::Num(Num::Int(i)));
    let r = jaq_std::verif_epoch_us(&*v);
    let g = unsafe { GHOST_US };
    match g {
        Some(us) => assert!(us as i128 == i as i128 * 1_000_000),
        None => assert!(r.is_none()),
    }
    core::mem::forget(r);
}


// ------------------------------------------------------------------ C10 read: array index model
#[kani::proof]
#[kani::unwind(5)]
fn arr_index_matches_model() {
    let n: usize = kani::any(); kani::assume(n <= 3);
    let e: [isize; 3] = kani::any();
    let mut v: Vec<Val> = Vec::new();
    let mut k = 0; while k < n { v.push(Val::Num(Num::Int(e[k]))); k += 1; }
    let a = core::mem::ManuallyDrop::new(Val::Arr(Rc::new(v)));
    let i: isize = kani::any();
    let idx = core::mem::ManuallyDrop::new(Val::Num(Num::Int(i)));
    let r = core::mem::ManuallyDrop::new((*a).clone().index_opt(&*idx));
    let pos: i128 = if i >= 0 { i as i128 } else { n as i128 + i as i128 };
    match &*r {
        Ok(Some(Val::Num(Num::Int(x)))) => { assert!(0 <= pos && pos < n as i128); assert!(*x == e[pos as usize]); }
        Ok(None) => assert!(!(0 <= pos && pos < n as i128)),
        _ => assert!(false),
    }
}

// ------------------------------------------------------------------ C07: byte escape round trip
#[kani::proof]
#[kani::unwind(12)]
fn json_byte_roundtrip_bstr() {
    let b: u8 = kani::any();
    let v = core::mem::ManuallyDrop::new(Val::byte_str(Vec::from([b])));
    let out = v.to_json();
    let back = core::mem::ManuallyDrop::new(crate::read::parse_single(&out));
    match &*back {
        Ok(Val::BStr(s)) => { assert!(s.len() == 1 && s[0] == b); }
        _ => assert!(false),
    }
}


pub fn from_dec_str_stub(_n: &str) -> Num { Num::Float(kani::any()) }

#[kani::proof]
#[kani::unwind(4)]
#[kani::stub(crate::num::Num::from_dec_str, from_dec_str_stub)]
#[kani::stub(alloc::fmt::format, fmt_stub)]
fn arr_index_concrete_contents() {
    let v: Vec<Val> = Vec::from([Val::Num(Num::Int(10)), Val::Num(Num::Int(20)), Val::Num(Num::Int(30))]);
    let a = core::mem::ManuallyDrop::new(Val::Arr(Rc::new(v)));
    let i: isize = kani::any();
    let idx = core::mem::ManuallyDrop::new(Val::Num(Num::Int(i)));
    let r = core::mem::ManuallyDrop::new((*a).clone().index_opt(&*idx));
    let pos: i128 = if i >= 0 { i as i128 } else { 3 + i as i128 };
    match &*r {
        Ok(Some(Val::Num(Num::Int(x)))) => { assert!(0 <= pos && pos < 3); assert!(*x == 10 * (pos as isize + 1)); }
        Ok(None) => assert!(!(0 <= pos && pos < 3)),
        _ => assert!(false),
    }
}

// CBOR integer round trip (jaq-fmts would host this; here only the arithmetic kernel)
#[kani::proof]
fn cbor_negative_header_arith() {
    let neg: u64 = kani::any();
    let got = neg as i128 ^ !0;
    assert!(got == -1 - (neg as i128));
}

#[test]
fn kani_concrete_playback_num_float_eq_implies_same_hash_1() {
    let concrete_vals: Vec<Vec<u8>> = vec![
        vec![0, 0, 0, 0, 0, 0, 0, 0],
        vec![0, 0, 0, 0, 0, 0, 0, 128],
    ];
    kani::concrete_playback_run(concrete_vals, num_float_eq_implies_same_hash);
}


// ------------------------------------------------------------------ C09 core
static mut GHOST_IOB: Option<(isize, isize)> = None;
fn int_or_big_stub<const N: usize>(i: Option<isize>, x: [isize; N], _f: fn([num_bigint::BigInt; N]) -> num_bigint::BigInt) -> Num {
    match i {
        Some(v) => Num::Int(v),
        None => { unsafe { GHOST_IOB = Some((x[0], if N > 1 { x[N - 1] } else { 0 })); } Num::Float(f64::NAN) }
    }
}

#[kani::proof]
#[kani::unwind(3)]
#[kani::stub(crate::num::int_or_big, int_or_big_stub)]
fn int_ops_fit_or_fallback() {
    let x: isize = kani::any();
    let y: isize = kani::any();
    let op: u8 = kani::any(); kani::assume(op < 3);
    let exact: i128 = match op { 0 => x as i128 + y as i128, 1 => x as i128 - y as i128, _ => x as i128 * y as i128 };
    let r = core::mem::ManuallyDrop::new(match op { 0 => Num::Int(x) + Num::Int(y), 1 => Num::Int(x) - Num::Int(y), _ => Num::Int(x) * Num::Int(y) });
    let fits = exact >= isize::MIN as i128 && exact <= isize::MAX as i128;
    match &*r {
        Num::Int(z) => { assert!(fits && *z as i128 == exact); }
        Num::Float(_) => { assert!(!fits); assert!(unsafe { GHOST_IOB } == Some((x, y))); }
        _ => assert!(false),
    }
    kani::cover!(!fits);
}

#[kani::proof]
#[kani::unwind(3)]
fn int_rem_exact() {
    let x: isize = kani::any();
    let y: isize = kani::any();
    kani::assume(y != 0);
    let r = core::mem::ManuallyDrop::new(Num::Int(x) % Num::Int(y));
    match &*r { Num::Int(z) => assert!(*z as i128 == (x as i128) % (y as i128)), _ => assert!(false) }
}

#[kani::proof]
#[kani::unwind(3)]
fn mixed_int_float_is_ieee() {
    let x: isize = kani::any();
    let f: f64 = kani::any();
    let r = core::mem::ManuallyDrop::new(Num::Int(x) + Num::Float(f));
    match &*r { Num::Float(z) => { let w = x as f64 + f; assert!(z.to_bits() == w.to_bits() || (z.is_nan() && w.is_nan())); } _ => assert!(false) }
    let d = core::mem::ManuallyDrop::new(Num::Int(x) / Num::Int(kani::any()));
    assert!(matches!(&*d, Num::Float(_)));
}


#[kani::proof]
#[kani::unwind(3)]
#[kani::stub(crate::num::int_or_big, int_or_big_stub)]
fn int_addsub_fit_or_fallback() {
    let x: isize = kani::any();
    let y: isize = kani::any();
    let sub: bool = kani::any();
    let exact: i128 = if sub { x as i128 - y as i128 } else { x as i128 + y as i128 };
    let r = core::mem::ManuallyDrop::new(if sub { Num::Int(x) - Num::Int(y) } else { Num::Int(x) + Num::Int(y) });
    let fits = exact >= isize::MIN as i128 && exact <= isize::MAX as i128;
    match &*r {
        Num::Int(z) => { assert!(fits && *z as i128 == exact); }
        Num::Float(_) => { assert!(!fits); assert!(unsafe { GHOST_IOB } == Some((x, y))); }
        _ => assert!(false),
    }
    kani::cover!(!fits);
}
