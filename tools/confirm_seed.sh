#!/bin/bash
# confirm_seed.sh <worktree> <k> : confirm a candidate breaking change in a scratch worktree:
#   clean tree: demo passes; with the change: compiles, existing tests pass, demo fails.
set -u
wt=$1; k=$2
cd "$wt" || exit 2
git checkout -q -- . || exit 2
bash demo$k.sh >/dev/null 2>&1; clean=$?
git apply mut$k.diff || { echo "patch does not apply"; exit 2; }
bash demo$k.sh >/dev/null 2>&1; broken=$?
tests=$(cargo test --workspace --no-fail-fast --offline 2>&1 | grep -E "^test result" | awk '{p+=$4; f+=$6} END {print p" passed "f" failed"}')
git checkout -q -- .
echo "seed $wt #$k: demo clean exit=$clean, with change exit=$broken, tests: $tests"
