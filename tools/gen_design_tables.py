#!/usr/bin/env python3
"""Refresh the generated tables of DESIGN.md section 9 (between the marker comments)."""
import json, re
from pathlib import Path
V = Path(__file__).resolve().parent.parent
cfg = json.loads((V / "obligations.json").read_text())
rows = ["| obligation | properties | real functions under contract | label | back end | tier |", "|---|---|---|---|---|---|"]
for o in cfg["obligations"]:
    fns = ", ".join(sorted({f.split("::", 1)[1] if "::" in f else f for f in o.get("functions", [])}))
    label = o["label"] + (f" ({o['bound']})" if o.get("bound") else "")
    be = o.get("backend", "kani") + ("/" + o["solver"] if o.get("solver") else "")
    rows.append(f"| {o['id']} | {' '.join(o['properties'])} | `{fns}` | {label} | {be} | {o.get('tier', 'quick')} |")
tab = "\n".join(rows)
seeds = ["| seeded change | property | needs | caught by (quick unless stated) |", "|---|---|---|---|"]
for d in sorted((V / "seeded").glob("*/meta.json")):
    m = json.loads(d.read_text())
    caught = m.get("caught_by") or "**not caught**"
    if m.get("note") and m.get("caught_by"):
        caught += " *(added after the miss)*"
    seeds.append(f"| {d.parent.name} | {m['property']} | {m['needs_to_manifest']} | {caught} |")
stab = "\n".join(seeds)
p = V / "DESIGN.md"
s = p.read_text()
s = re.sub(r"(<!-- OBLIGATIONS:BEGIN -->\n).*?(<!-- OBLIGATIONS:END -->)", lambda m: m.group(1) + tab + "\n" + m.group(2), s, flags=re.S)
s = re.sub(r"(<!-- SEEDS:BEGIN -->\n).*?(<!-- SEEDS:END -->)", lambda m: m.group(1) + stab + "\n" + m.group(2), s, flags=re.S)
p.write_text(s)
print(len(cfg["obligations"]), "obligations,", len(seeds) - 2, "seeds")
