#!/usr/bin/env python3
"""import_seed.py <prop> <worktree> <k> <name> "<needs>" : copy a confirmed breaking change into
/verif/seeded/<prop>-<name>/ (patch.diff, demo.sh, meta.json)."""
import json, shutil, subprocess, sys
from pathlib import Path
prop, wt, k, name, needs = sys.argv[1:6]
V = Path(__file__).resolve().parent.parent
d = V / "seeded" / f"{prop}-{name}"
d.mkdir(parents=True, exist_ok=True)
shutil.copy(f"{wt}/mut{k}.diff", d / "patch.diff")
shutil.copy(f"{wt}/demo{k}.sh", d / "demo.sh")
meta = {
    "property": prop, "name": name, "needs_to_manifest": needs,
    "author_notes": Path(f"{wt}/meta{k}.txt").read_text(),
    "base_commit": subprocess.run(["git", "-C", "/repo", "rev-parse", "--short", "HEAD"], capture_output=True, text=True).stdout.strip(),
    "confirmed": "tools/confirm_seed.sh in a scratch worktree: demo exits 0 on the clean tree and non-zero with the change; `cargo test --workspace --no-fail-fast --offline` passes with the change",
    "checks_run": [],
}
(d / "meta.json").write_text(json.dumps(meta, indent=1))
print("imported", d)
