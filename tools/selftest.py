#!/usr/bin/env python3
"""setup_cmd: nothing to build (the framework is Python + files); check that the tools the
checks need are present and that the registry is consistent."""
import json, shutil, sys
from pathlib import Path
V = Path(__file__).resolve().parent.parent
ok = True
for tool in ("cargo", "cargo-kani", "cbmc", "cvc5", "verus", "rsync"):
    if not shutil.which(tool):
        print("missing tool:", tool); ok = False
cfg = json.loads((V / "obligations.json").read_text())
ov = json.loads((V / "contracts" / "overlay.json").read_text())
for o in cfg["obligations"]:
    if o.get("backend", "kani") == "kani" and o["crate"] not in ov:
        print("no overlay for", o["crate"]); ok = False
    for p in o["properties"]:
        if p not in cfg["properties"] and p not in ("C02", "C11"):
            print("obligation", o["id"], "names unconfigured property", p); ok = False
for spec in ov.values():
    for src, _ in spec.get("copy", []) + spec.get("append", []):
        if not (V / src).exists():
            print("missing", src); ok = False
(V / "evidence").mkdir(exist_ok=True)
(V / "replay").mkdir(exist_ok=True)
print("selftest", "ok" if ok else "FAILED")
sys.exit(0 if ok else 1)
