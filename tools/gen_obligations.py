#!/usr/bin/env python3
"""Source of truth for /verif/obligations.json (run after editing: tools/gen_obligations.py).

An obligation = one harness (Kani) or one verifier run (Verus) with: the properties it serves,
the real functions it puts under contract, its label (complete | bounded | point), its tier.
"""
import json
from pathlib import Path

VERIF = Path(__file__).resolve().parent.parent
OBS = []


def ob(id, props, crate, harness, statement, functions, label="complete", kind="lemma", tier="quick", **kw):
    d = dict(id=id, properties=props, crate=crate, harness="verif_k::" + harness, kind=kind, label=label,
             tier=tier, statement=statement, functions=functions)
    d.update(kw)
    OBS.append(d)


J, S, C, F = "jaq-json", "jaq-std", "jaq-core", "jaq-fmts"
NUM = "jaq-json/src/num.rs::"
LIB = "jaq-json/src/lib.rs::"

# ------------------------------------------------------------------------------------ C10
ob("O-C10-wrap", ["C10", "C05"], J, "c10_wrap", "PosUsize::wrap(len) is Some(pos) for the absolute position pos = n (non-negative) or len - n (negative) when that is >= 0, else None; for every (sign, magnitude) and every len", [NUM + "PosUsize::wrap"], kind="contract")
ob("O-C10-bound", ["C10", "C05"], J, "c10_abs_bound", "abs_bound: an absent bound is the default; a given bound is its absolute position clipped into 0..=len (caller of wrap checked against wrap's contract only)", [LIB + "abs_bound"], kind="contract", stubs=["PosUsize::wrap"])
ob("O-C10-index", ["C10", "C05"], J, "c10_abs_index", "abs_index: Some(pos) iff 0 <= pos < len, for every position and len", [LIB + "abs_index"], kind="contract", stubs=["PosUsize::wrap"])
ob("O-C10-skiptake", ["C10", "C05"], J, "c10_skip_take", "skip_take: (from, max(upto-from,0)) with from/upto the clipped bounds (null = open); skip+take <= len", [LIB + "skip_take"], kind="contract", stubs=["abs_bound"])
ob("O-C10-skiptake-bytes", ["C10", "C05"], J, "c10_skip_take_bytes", "skip_take_bytes applies the same model to the byte length", [LIB + "skip_take_bytes"], label="bounded", bound="byte strings of length <= 8; the function reads only the length", stubs=["skip_take"])
ob("O-C10-posusize", ["C10", "C05", "C09"], J, "c10_as_pos_usize_int", "Num::as_pos_usize maps every machine integer to (i >= 0, |i|), floats to None, and establishes the type invariant (negative => magnitude >= 1)", [NUM + "Num::as_pos_usize"])
ob("O-C10-index-model", ["C10"], J, "c10_index_model", "top level: for every machine integer i and every len, as_pos_usize followed by abs_index reads position (i >= 0 ? i : len + i) iff it lies in 0..len, and nothing otherwise", [NUM + "Num::as_pos_usize", LIB + "abs_index"], stubs=["abs_index"])
ob("O-C10-slice-model", ["C10"], J, "c10_slice_model", "top level: for all optional machine-integer bounds and every len, the selected slice is [clip(pos(start)), max(clip(pos(end)), clip(pos(start)))) with null = open", [NUM + "Num::as_pos_usize", LIB + "skip_take"], stubs=["skip_take"])

ob("O-C10-chars2", ["C10", "C13", "C05"], J, "c10_skip_take_chars_2", "skip_take_chars: the one position model applied to the character count of a text string (characters as bstr decodes them, every invalid byte one character), returned as byte offsets of character boundaries - slicing text never splits a character and never leaves the string; all positions and bounds", [LIB + "skip_take_chars"], label="bounded", bound="all byte strings of length <= 2 (valid and invalid UTF-8), all positions", composes_dependency=True)
ob("O-C10-chars3", ["C10", "C13", "C05"], J, "c10_skip_take_chars_3", "skip_take_chars: the same on all byte strings of length <= 3", [LIB + "skip_take_chars"], label="bounded", bound="all byte strings of length <= 3, all positions", composes_dependency=True, tier="thorough")

for kind, fn in (("text", "skip_take_chars (character positions)"), ("bytes", "skip_take_bytes")):
    ob(f"O-C10-range-{kind}", ["C10", "C02", "C13"], J, f"c10_range_dispatch_{kind}", f"Val::range (`.[a:b]` read) on a {kind} string asks {fn} and returns exactly the part that function selects (the position functions are replaced by ghost stubs that record who was called; their own contracts are O-C10-chars*, O-C10-skiptake-bytes)", [LIB + "Val::range", LIB + "Val::range_int"], label="point", kind="point", stubs=["skip_take_chars", "skip_take_bytes"])

ob("O-C10-splice", ["C10", "C05"], J, "c10_bytes_splice_enum", "bytes_splice(b, skip, take, r) leaves old[..skip] ++ r ++ old[skip+take..] (growing, shrinking, inserting, deleting), the kernel behind slice updates on strings", [LIB + "bytes_splice"], label="bounded", bound="every (skip, take) inside a 4-byte buffer x replacement lengths 0..=3, enumerated concretely", composes_dependency=True)

ob("O-C10-read-arr", ["C10", "C02"], J, "c10_read_array_index", "the real Val::index_opt on a 3-element array: `.[i]` for every i in -5..=5 yields the element at (i >= 0 ? i : 3 + i) when that is inside and nothing otherwise - the accessor applies the position arithmetic of O-C10-abs-index to the array's own length", [LIB + "Val::index_opt"], label="bounded", bound="one 3-element array x indices -5..=5, enumerated concretely", composes_dependency=True)
ob("O-C10-read-bytes", ["C10", "C13"], J, "c10_read_bytes_index", "the real Val::index_opt on a byte string (3 bytes, two of them a multi-byte UTF-8 sequence): `.[i]` for i in {-1, 1, 3} yields the byte (not the character) at the model position as a number, nothing outside", [LIB + "Val::index_opt"], label="point", kind="point", composes_dependency=True)

for k, what in (("exp", "literals with an exponent and no dot (1e1000, 1E2, -2e-3) are decimals whose text is kept character for character"),
                ("frac", "literals with a fraction (1.10, -0.0, 1.5e3) are decimals whose text is kept character for character, trailing zero included"),
                ("reject", "a sign alone, a sign before a non-digit, a literal ending in `.` or `e` (none of them JSON): the reader does not panic on them - in particular it does not unwrap a failed integer parse - and if it accepts one, then as the decimal with that text"),
                ("inf", "+Infinity / -Infinity read as the infinite floats"),
                ("int", "an integer literal is handed to Num::from_str_radix whole (sign included, nothing after it), in base 10, and that function's answer is returned")):
    ob(f"O-C07-parse-num-{k}", ["C07", "C05"] if k == "reject" else ["C07"], J, f"c07_parse_num_{k}", "parse_num (the JSON / XJON / CSV number reader) on literals run through hifijson's real slice lexer; the integer parser Num::from_str_radix (core / num-bigint) is replaced by a ghost stub that answers None unless the text is an optional sign and digits: " + what, ["jaq-json/src/read.rs::parse_num"], label="point", kind="point", composes_dependency=True, **({"stubs": ["from_str_radix"]} if k in ("int", "exp", "frac", "reject") else {}))

FU = "jaq-json/src/funs.rs::"
ob("O-C12-contains-arr", ["C12"], J, "c12_contains_arrays", "Val::contains on arrays of integers at four points: every element of the argument is contained in some element of the input - also when the argument is longer than the input ([1,2] contains [1,1,2]); [3] is not contained; the empty array is contained in everything and contains only itself", [FU + "Val::contains"], label="point", kind="point")
for k, what in (("arrays", "array argument: exactly the window positions i with .[i:][:len] == argument, overlapping matches included"),
                ("element", "non-array argument on an array: the positions of the equal elements"),
                ("bytes", "byte strings: window positions counted in bytes"),
                ("text", "text strings with multi-byte characters: positions counted in characters")):
    ob(f"O-C12-indices-{k}", ["C12"], J, f"c12_indices_{k}", "Val::indices at points - " + what, [FU + "Val::indices"], label="point", kind="point")

ob("O-C07-writebuf-utf8", ["C07"], J, "c07_write_buf_invalid_utf8", "write_buf (the writer behind tojson / tostring / @json) on the text string a, 0xFF, b: the invalid byte is written unchanged between the quotes (not replaced by U+FFFD), as the command-line writer does", ["jaq-json/src/write.rs::write_buf"], label="point", kind="point")
ob("O-C07-writebuf-atoms", ["C07"], J, "c07_write_buf_atoms", "write_buf on null and true writes the four bytes of the literal", ["jaq-json/src/write.rs::write_buf"], label="point", kind="point")

for k, tier, what in (("plain", "quick", "text string: the bytes a, 0xFF, b before the closing quote are copied unchanged (invalid UTF-8 preserved as-is)"),
                      ("bytes", "quick", "byte string: \\xff\\x00a denotes the bytes FF 00 61 (the byte itself, not the character U+00FF)"),
                      ("esc", "thorough", "text string: \\n and \\\" denote line feed and quote"),
                      ("uni", "thorough", "text string: \\u00e4 denotes U+00E4, stored as its UTF-8 bytes C3 A4")):
    ob(f"O-C07-parse-string-{k}", ["C07"], J, f"c07_parse_string_{k}", "parse_string (the JSON / XJON string reader) on a literal run through hifijson's real slice lexer - " + what, ["jaq-json/src/read.rs::parse_string"], label="point", kind="point", tier=tier, composes_dependency=True)

# ------------------------------------------------------------------------------------ C08
ob("O-C08-float", ["C08"], J, "c08_float_cmp_order", "float_cmp is a total preorder on non-NaN floats (reflexive, antisymmetric, transitive over all triples), float_eq <=> Equal, and it agrees with IEEE <, ==, > (so -inf < finite < +inf, -0 == +0)", [NUM + "float_cmp", NUM + "float_eq"])
for k, kinds in (("ii", "Int,Int"), ("if", "Int,Float"), ("fi", "Float,Int"), ("ff", "Float,Float")):
    ob(f"O-C08-num-{k}", ["C08"], J, f"c08_num_cmp_{k}", f"Num::cmp / eq / partial_cmp on all ({kinds}) pairs: eq <=> cmp == Equal, antisymmetric, reflexive, and equal to the mathematical order on the property's domain (|int| <= 2^53 against finite floats)", [NUM + "Num::cmp", NUM + "Num::eq", NUM + "Num::partial_cmp"])
for k in ("iii", "iif", "ifi", "iff", "fii", "fif", "ffi", "fff"):
    ob(f"O-C08-trans-{k}", ["C08"], J, f"c08_num_trans_{k}", "transitivity of <= and of == over all number triples of kinds " + k + " (i = machine integer, f = float) inside the property's domain", [NUM + "Num::cmp", NUM + "Num::eq"])
for k, kinds in (("ii", "Int,Int"), ("if", "Int,Float"), ("ff", "Float,Float")):
    ob(f"O-C08-hash-{k}", ["C08"], J, f"c08_num_hash_{k}", f"equal numbers are interchangeable keys: for all ({kinds}) pairs, a == b implies Num::hash feeds the hasher the identical byte stream (independent of the hash function); every stream starts with a tag < 2 as Val::hash assumes", [NUM + "Num::hash", NUM + "Num::eq"],
       inlang={"inputs": [{"i": "isize", "f": "f64"}[k[0]], {"i": "isize", "f": "f64"}[k[1]]], "filter": "{($a):1,\"x\":2}|has($b)", "expect": "true", "doc": "a, b = the two numbers of the counterexample; must print true"})

# ------------------------------------------------------------------------------------ C09
ob("O-C09-add", ["C09", "C05"], J, "c09_int_add", "Int + Int: the exact sum (i128) as Num::Int when it fits, otherwise the big-integer fall-back is entered with the same operands in the same order; never wraps, never panics", [NUM + "Num::add"], stubs=["int_or_big"])
ob("O-C09-sub", ["C09", "C05"], J, "c09_int_sub", "Int - Int: exact difference or fall-back with the same operands in order", [NUM + "Num::sub"], stubs=["int_or_big"])
ob("O-C09-neg", ["C09", "C05"], J, "c09_int_neg", "-Int: exact negation or fall-back (isize::MIN)", [NUM + "Num::neg"], stubs=["int_or_big"])
ob("O-C09-mul", ["C09", "C05"], J, "c09_int_mul_routing", "Int * Int: Int(z) exactly when checked_mul gives Some(z), else fall-back with the same operands (exactness of core's checked_mul trusted)", [NUM + "Num::mul"], stubs=["int_or_big"])
ob("O-C09-rem", ["C09", "C05"], J, "c09_int_rem", "Int % Int (divisor != 0) is an integer equal to the primitive truncated remainder, with isize::MIN % -1 == 0; no panic (the primitive's exactness is core's contract)", [NUM + "Num::rem"], solver="cvc5")
ob("O-C09-rem-bounds", ["C09"], J, "c09_int_rem_bounds", "Int % Int (divisor != 0): |result| < |divisor| and the result is 0 or has the sign of the dividend, for all operands", [NUM + "Num::rem"])
ob("O-C09-iob", ["C09"], J, "c09_int_or_big", "int_or_big (the fall-back every integer operator routes through): Some(v) gives Int(v) without calling the fall-back; None calls it with big integers equal to the operands, in order, and returns its result as a big integer; all machine-integer operands, one- and two-operand forms", [NUM + "int_or_big", NUM + "Num::big_int"], kind="contract", composes_dependency=True)
ob("O-C09-zero", ["C09"], J, "c09_zero_guard", "the guard Val::rem uses (y == Num::Int(0)) holds exactly for zero divisors among machine integers and floats", [NUM + "Num::eq"])
for k, kinds in (("ff", "Float,Float"), ("if", "Int,Float"), ("fi", "Float,Int")):
    for opn, op in (("add", "+"), ("sub", "-"), ("mul", "*"), ("div", "/")):
        kw = {"solver": "cvc5"}
        ob(f"O-C09-{k}-{opn}", ["C09", "C05"], J, f"c09_{k}_{opn}", f"({kinds}) {op}: the result is a float, bit for bit the IEEE result of the operands converted with `as f64`, in the order written", [NUM + "Num::" + opn], **kw)
ob("O-C09-ii-div", ["C09", "C05"], J, "c09_ii_div", "Int / Int is the IEEE quotient of the converted operands (division by zero included), never an integer", [NUM + "Num::div"], solver="cvc5")
ob("O-C09-rem-kind", ["C09", "C05"], J, "c09_rem_kind", "% with a float on either side yields a float and never panics (value = fmod, not decided)", [NUM + "Num::rem"])
ob("O-C09-neg-float", ["C09"], J, "c09_neg_float", "-Float is the IEEE negation", [NUM + "Num::neg"])
ob("O-C09-observers", ["C09"], J, "c09_observers", "is_int / as_isize / as_f64 on Num and on Val give the value-level answer for machine integers and floats; null and booleans are not numbers (Val's conformance to the jaq_std::ValT observer contract)", [NUM + "Num::is_int", NUM + "Num::as_isize", NUM + "Num::as_f64", LIB + "Val::is_int", LIB + "Val::as_isize", LIB + "Val::as_f64"])
ob("O-C05-length", ["C05"], J, "c05_num_length", "Num::length (absolute value) is exact for every machine integer (isize::MIN goes to the big-integer representation) and for floats; never panics", [NUM + "Num::length"], stubs=["int_or_big"],
   inlang={"inputs": ["isize"], "filter": "$a|length", "expect": "no_panic", "doc": "a = the integer of the counterexample"})

# point obligations: the big-integer arms at concrete boundary values
ob("O-C08-big", ["C08", "C09"], J, "c08_big_points", "points: a big integer against +/-infinity and a small float in both argument orders; 5 as Int / BigInt / Float and 0 as Int / BigInt mutually equal, ordered Equal and hashing alike; big integers beyond the machine range ordered among themselves and against isize::MAX / MIN", [NUM + "Num::cmp", NUM + "Num::eq", NUM + "Num::hash"], label="point", kind="point", composes_dependency=True)
ob("O-C08-big-big", ["C08"], J, "c08_big_cmp_big", "two big integers of any value up to 128 bits: cmp is the mathematical order and == is equality of values (integers beyond 2^53 compared among integers)", [NUM + "Num::cmp", NUM + "Num::eq"], composes_dependency=True, tier="thorough", timeout=3000)
ob("O-C08-big-inf", ["C08"], J, "c08_big_cmp_inf", "a big integer of any value up to 128 bits against +/-Infinity, in both argument orders: -Infinity < every integer < Infinity, never equal", [NUM + "Num::cmp", NUM + "Num::eq"], composes_dependency=True, tier="thorough", timeout=3000)
ob("O-C08-val-strings", ["C08"], J, "c08_val_text_bytes_points", "points: a text string and a byte string with equal bytes are ==, ordered Equal in both directions and feed the hasher the same stream; different bytes order bytewise", [LIB + "Val::cmp", LIB + "Val::eq", LIB + "Val::hash"], label="point", kind="point", composes_dependency=True)
ob("O-C08-val-kinds", ["C08"], J, "c08_val_kind_order_points", "points: Val::cmp follows the documented kind sequence null < false < true < numbers < strings < arrays on one representative per kind (49 ordered pairs); == holds only on the diagonal", [LIB + "Val::cmp", LIB + "Val::eq"], label="point", kind="point", composes_dependency=True)
ob("O-C09-big-obs", ["C09", "C10", "C05"], J, "c09_big_observers", "for every big integer up to 128 bits: is_int; as_isize is Some(value) iff it fits a machine integer; as_pos_usize is (value >= 0, |value|) with zero non-negative, None beyond usize; a big integer that fits agrees with the machine integer of the same value (equal integers behave identically however stored)", [NUM + "Num::is_int", NUM + "Num::as_isize", NUM + "Num::as_pos_usize"], composes_dependency=True)
ob("O-C09-from-integral", ["C09", "C14"], J, "c09_from_integral", "Num::from_integral / Val::from(usize): a machine integer when the value fits, else the big integer of exactly that value, for every u64, i128 and usize", [NUM + "Num::from_integral", LIB + "Val::from<usize>"], composes_dependency=True)
ob("O-C09-saturate", ["C09", "C05"], J, "c09_bigint_saturated", "bigint_to_int_saturated (string repetition by a big integer): the value clamped into the machine-integer range, for every big integer up to 128 bits", [LIB + "bigint_to_int_saturated"], composes_dependency=True)
ob("O-C09-big-mul", ["C09"], J, "c09_big_mul_points", "points: isize::MIN * -1 through the fall-back is 2^63; 3 * big 5, big 5 * -3, big -5 * big -3 are the products (the fall-back closure of * multiplies)", [NUM + "Num::mul", NUM + "int_or_big"], label="point", kind="point", composes_dependency=True, stubs=["_addcarry_u64", "_subborrow_u64"])
ob("O-C09-big-points", ["C09"], J, "c09_big_points", "points: as_f64 of big 5 / -1, length (absolute value) of big -1 and -2^63-1, 2^70 is beyond every machine-sized observer", [NUM + "Num::as_f64", NUM + "Num::length"], label="point", kind="point", composes_dependency=True)
ob("O-C09-big-arith", ["C09"], J, "c09_big_arith", "points: MAX+1, MIN-1, MIN+(-1), -MIN, MAX-(-1) take the exact big-integer value through the real fall-back; Int-BigInt, BigInt-Int, Int+BigInt, BigInt+Int, BigInt-BigInt, -BigInt with the operands in the order written (num-bigint executed on concrete operands)", [NUM + "Num::add", NUM + "Num::sub", NUM + "Num::neg", NUM + "int_or_big"], label="point", kind="point", composes_dependency=True, stubs=["_addcarry_u64", "_subborrow_u64"])

# ------------------------------------------------------------------------------------ C07 (writer half)
for i, h in enumerate("0123456789abcdef"):
    quick = h in "0127"  # control characters, `"`, `\\` (0x5c is in block 5 -> thorough), DEL
    ob(f"O-C07-byte-{h}", ["C07"], J, f"c07_write_byte_{h}", f"write_byte! (with the fall-backs of write_utf8! / write_bytes!) writes each byte 0x{h}0..=0x{h}f inside a JSON string exactly as RFC 8259 section 7 prescribes (two-character escapes, \\u00XX for other control characters, the character itself otherwise; byte strings: \\xXX outside printable ASCII)", ["jaq-json/src/write.rs::write_byte!", "jaq-json/src/write.rs::write_utf8! (fall-back expression)", "jaq-json/src/write.rs::write_bytes! (fall-back expression)"], label="complete", kind="lemma", bound="", tier="quick" if quick else "thorough", timeout=900)

for c, quick in (("00", False), ("1f", True), ("20", True), ("22", True), ("5c", False), ("7e", False), ("7f", True), ("80", False)):
    ob(f"O-C07-utf8-{c}", ["C07", "C13"], J, f"c07_write_utf8_{c}", f"the whole write_utf8! macro (is_special predicate, splitting, write_byte!) on the one-byte text string [0x{c}]: quote, the escape RFC 8259 requires for that byte or the byte itself, quote", ["jaq-json/src/write.rs::write_utf8!", "jaq-json/src/write.rs::write_byte!"], label="point", kind="point", tier="quick" if quick else "thorough", timeout=900)

# ------------------------------------------------------------------------------------ jaq-std (trait-contract instances, AnyVal)
STD = "jaq-std/src/lib.rs::"
TIME = "jaq-std/src/time.rs::"
FMT = ["fmt::format"]
ob("O-C13-implode", ["C13", "C05", "C09"], S, "c13_implode_one", "implode on one code, for every value of the abstract value type: codes -255..0 give that byte, Unicode scalar values their UTF-8 encoding (Unicode table 3-6), everything else (non-integers, surrogates, > 0x10FFFF, < -255, isize::MIN) is rejected with an error; never wraps, never panics", [STD + "implode", STD + "ValTx::try_as_isize"], kind="trait-contract", stubs=FMT,
   inlang={"inputs": ["AnyVal"], "filter": "[$a]|implode", "expect": "no_panic", "doc": "a = the integer code of the counterexample"})
ob("O-C13-implode2", ["C13", "C05"], S, "c13_implode_two", "implode on two codes: the output is the concatenation of the per-code outputs; the first rejected code ends it with an error; empty input gives the empty string", [STD + "implode"], kind="trait-contract", label="bounded", bound="arrays of <= 2 codes, each code unconstrained", stubs=FMT, tier="thorough")
ob("O-C13-explode1", ["C13", "C05"], S, "c13_explode_implode_1", "explode then implode is the identity on every byte string of length <= 1 (valid or invalid UTF-8); every emitted code is a scalar value or a negated byte", [STD + "explode", STD + "Explode::next", STD + "implode"], kind="trait-contract", label="bounded", bound="all byte strings of length <= 1 (exhaustive)", stubs=FMT)
ob("O-C13-explode2", ["C13", "C05"], S, "c13_explode_implode_2", "explode then implode is the identity on every byte string of length <= 2", [STD + "explode", STD + "Explode::next", STD + "implode"], kind="trait-contract", label="bounded", bound="all byte strings of length <= 2 (exhaustive)", stubs=FMT)
ob("O-C13-explode3", ["C13"], S, "c13_explode_implode_3", "explode then implode is the identity on every byte string of length <= 3", [STD + "explode", STD + "Explode::next", STD + "implode"], kind="trait-contract", label="bounded", bound="all byte strings of length <= 3 (exhaustive)", stubs=FMT, tier="thorough", timeout=1800)
ob("O-C09-round", ["C09", "C12", "C05"], S, "c09_round", "ValTx::round (floor/round/ceil) with the rounding function abstracted to any float result y: integers unchanged; finite y in [-2^63, 2^63) becomes exactly that integer; finite y outside goes through decimal text (exact); non-finite y stays a float; non-numbers are an error", [STD + "ValTx::round"], kind="trait-contract", stubs=FMT,
   inlang={"inputs": ["AnyVal", "f64"], "filter": "$b|round", "expect": "int_of_b", "doc": "b = the rounding result y of the counterexample (an integral float is its own round); must print exactly that integer"})
ob("O-C05-i32", ["C05"], S, "c05_try_as_i32", "try_as_i32 (exit codes, ldexp-style arguments): the exact integer or an error, never a truncation", [STD + "ValTx::try_as_i32"], kind="trait-contract", stubs=FMT)
ob("O-C20-epoch", ["C20", "C05"], S, "c20_epoch_to_timestamp", "epoch_to_timestamp: jiff receives exactly i * 10^6 microseconds for every machine integer i (computed in i128) or an error is returned - never a wrapped product; floats pass (f * 10^6) as i64, and a non-finite input never becomes an instant jiff accepts (NaN is an error, never the epoch); non-numbers are errors", [TIME + "epoch_to_timestamp"], kind="trait-contract", stubs=["from_microsecond", "fmt::format"],
   inlang={"inputs": ["AnyVal"], "filter": "$a|gmtime", "expect": "error_if_nonfinite", "doc": "a = the number of the counterexample; must not panic, and must be an error for NaN / infinities / non-numbers"})
ob("O-C20-iso", ["C20", "C05"], S, "c20_to_iso8601", "to_iso8601: machine integers are passed to jiff unchanged as whole seconds; other numbers as for epoch_to_timestamp", [TIME + "to_iso8601"], kind="trait-contract", stubs=["from_microsecond", "from_second", "fmt::format"],
   inlang={"inputs": ["AnyVal"], "filter": "$a|todate", "expect": "error_if_nonfinite", "doc": "a = the number of the counterexample"})
ob("O-C20-back", ["C20"], S, "c20_timestamp_to_epoch", "timestamp_to_epoch: whole seconds come back as the exact machine integer, fractional instants as microseconds / 10^6", [TIME + "timestamp_to_epoch"], kind="trait-contract", stubs=["as_second", "as_microsecond"], solver="cvc5")
ob("O-C20-mktime-frac", ["C20"], S, "c20_mktime_fraction", "mktime: for every instant jiff can report (seconds and SIGNED sub-second nanoseconds, before and after 1970) an integer answer is given only when the instant has no microsecond fraction; otherwise the answer is the fractional one of timestamp_to_epoch - `gmtime | mktime` returns the original instant on both sides of the epoch (array_to_datetime, under O-C20-array / -seconds, and jiff's to_zoned replaced by constant stubs)", [TIME + "mktime", TIME + "timestamp_to_epoch"], kind="trait-contract", stubs=["array_to_datetime", "DateTime::to_zoned", "Zoned::timestamp", "Timestamp::subsec_nanosecond", "as_second", "as_microsecond", "fmt::format"],
   inlang={"inputs": [], "filter": "[-0.5, -1.5, -86400.25, 1.5, -2, 0] | map(gmtime | mktime) == [-0.5, -1.5, -86400.25, 1.5, -2, 0]", "expect": "true", "doc": "fixed filter: fractional instants before 1970 through gmtime | mktime"})
ob("O-C20-array", ["C20", "C05"], S, "c20_array_fields", "array_to_datetime: DateTime::new receives exactly (year, month + 1, day, hour, minute) as mathematical integers whenever it is called; a field that is not a machine integer or does not fit its range gives None - never a wrapped or saturated value, never a panic", [TIME + "array_to_datetime"], kind="trait-contract", stubs=["DateTime::new"],
   inlang={"inputs": ["[AnyVal; 6]"], "spread": True, "filter": "[$a,$b,$c,$d,$e,0]|mktime", "expect": "no_panic", "doc": "a..e = year, month, day, hour, minute of the counterexample"})
ob("O-C20-array-short", ["C20", "C05"], S, "c20_array_short", "array_to_datetime: arrays with fewer than 6 elements are rejected without calling jiff", [TIME + "array_to_datetime"], kind="trait-contract", label="bounded", bound="arrays of length 0..5")
ob("O-C20-seconds", ["C20", "C05"], S, "c20_array_seconds", "array_to_datetime, seconds field: a second value inside the i8 range is passed as its floor; NaN and out-of-range values are never turned into a valid second 0..=59; a non-number gives None", [TIME + "array_to_datetime"], kind="trait-contract", stubs=["DateTime::new"],
   inlang={"inputs": ["AnyVal"], "filter": "[2000,0,1,0,0,$a]|mktime", "expect": "error_if_nonfinite", "doc": "a = the seconds value of the counterexample"})
ob("O-C20-fields", ["C20"], S, "c20_datetime_to_array", "datetime_to_array: [year, month - 1, day, hour, minute, seconds, weekday from Sunday, day of year - 1] of what jiff's accessors report, seconds an integer when the sub-second part is zero and second + ns / 10^9 otherwise, for every value in the accessors' documented ranges", [TIME + "datetime_to_array"], kind="trait-contract", solver="cvc5", stubs=["DateTime::year", "DateTime::month", "DateTime::day", "DateTime::hour", "DateTime::minute", "DateTime::second", "DateTime::subsec_nanosecond", "DateTime::weekday", "DateTime::day_of_year"])
ob("O-C13-offset2", ["C13", "C05"], S, "c13_char_of_byte_2", "ByteChar::char_of_byte (regex match offsets): for two successive capture-group offsets on character boundaries, in any order, each call returns the number of characters before the offset (never None, which would panic in Match::new)", ["jaq-std/src/regex.rs::ByteChar::char_of_byte", "jaq-std/src/regex.rs::ByteChar::new"], label="bounded", bound="all byte strings of length <= 2, all pairs of boundary offsets", composes_dependency=True,
   inlang={"inputs": [], "filter": "\"yx\" | [match(\"(?:(x)|(y))+\")] | length == 1", "expect": "true", "doc": "fixed filter: a match whose second capture group starts before the first"})
ob("O-C13-offset3", ["C13", "C05"], S, "c13_char_of_byte_3", "ByteChar::char_of_byte: the same on all byte strings of length <= 3", ["jaq-std/src/regex.rs::ByteChar::char_of_byte", "jaq-std/src/regex.rs::ByteChar::new"], label="bounded", bound="all byte strings of length <= 3, all pairs of boundary offsets", composes_dependency=True, tier="thorough")
ob("O-C11-once", ["C11"], S, "c11_once_or_empty", "once_or_empty: Ok(Some x) -> [Ok x], Ok(None) -> [], Err e -> [Err e]", [STD + "once_or_empty"], kind="contract")

# ------------------------------------------------------------------------------------ jaq-core
CORE = "jaq-core/src/"
ob("O-C15-table", ["C15"], C, "c15_precedence_table", "for every pair of binary operators (| , as-binding, the assignment forms with all five arithmetic operators and //=, //, or, and, six comparisons, five arithmetic operators): precedence is order-isomorphic to the manual's table and associativity is Right exactly for |, `as $x |` and the assignments", [CORE + "load/parse.rs::BinaryOp::precedence", CORE + "load/parse.rs::BinaryOp::associativity"])
for a in ("lll", "llr", "lrl", "lrr", "rll", "rlr", "rrl", "rrr"):
    ob(f"O-C15-climb3-{a}", ["C15"], C, f"c15_climb3_{a}", f"prec_climb::climb (the generic engine behind Term::climb) builds exactly the tree the table implies - split at the loosest operator, rightmost among equals if left-associative, leftmost if right-associative - for every sequence of 1..3 operators over three precedence levels with associativities {a} (l = left, r = right, per level)", [CORE + "load/prec_climb.rs::climb", CORE + "load/prec_climb.rs::climb1"], label="bounded", bound="all operator sequences of length <= 3 over 3 precedence levels (every order type of 3 operators), enumerated concretely")
    ob(f"O-C15-climb4-{a}", ["C15"], C, f"c15_climb4_{a}", f"the same for every sequence of 4 operators over three precedence levels, associativities {a}", [CORE + "load/prec_climb.rs::climb", CORE + "load/prec_climb.rs::climb1"], label="bounded", bound="all 81 operator sequences of length 4 over 3 precedence levels, enumerated concretely", tier="thorough")
ob("O-C09-ops", ["C09"], C, "c09_math_dispatch", "ops::Math::run applies exactly the operator its variant names to (l, r) in that order, and as_str is the manual's symbol, for every operator and all operands (recording operand type)", [CORE + "ops.rs::Math::run", CORE + "ops.rs::Math::as_str"])
ob("O-C08-ops", ["C08"], C, "c08_cmp_dispatch", "ops::Cmp::run is the comparison its variant names (<, <=, >, >=, ==, !=) on an ordered type, for all pairs, and as_str is the manual's symbol", [CORE + "ops.rs::Cmp::run", CORE + "ops.rs::Cmp::as_str"])
ob("O-C15-verify-last", ["C15"], C, "c15_verify_last", "Parser::verify_last accepts exactly when what remains of a delimited block is its closing delimiter alone (or nothing at the top level): leftover tokens before the delimiter are an error, never silently dropped", [CORE + "load/parse.rs::Parser::verify_last"], label="bounded", bound="remaining token lists of length 0..=2 over three token texts x three expected delimiters, enumerated concretely")
for nm, what in (("empty", "the empty comment, plain white space, no comment"), ("bs", "comment bodies starting with a backslash"), ("sp", "comment bodies starting with a space"), ("nl", "comment bodies starting with a newline"), ("cr", "comment bodies starting with a carriage return"), ("a", "comment bodies starting with a letter")):
    ob(f"O-C15-space-{nm}", ["C15"], C, f"c15_space_{nm}", f"Lexer::space skips exactly white space and comments, a comment ending at the first line ending that is not immediately preceded by an odd number of backslashes (CR before LF not counting): {what}", [CORE + "load/lex.rs::Lexer::space"], label="bounded", bound="comment bodies of length <= 3 over { backslash, space, LF, CR, letter }, followed by a fixed two-line tail; enumerated concretely (string literals)", timeout=1200, tier="quick" if nm in ("bs", "empty") else "thorough")
ob("O-C05-token", ["C05", "C15"], C, "c05_token_points", "Lexer::token on texts with a non-ASCII character right after each kind of token start (`.`, `..`, identifier, number, `$`, `@`, `::`, operator, comment): never panics (no slice off a character boundary), consumes exactly the ASCII token prefix and records the expected errors", [CORE + "load/lex.rs::Lexer::token", CORE + "load/lex.rs::Lexer::ident1", CORE + "load/lex.rs::Lexer::mod_then_ident"], label="point", kind="point")
ob("O-C16-vars", ["C16", "C01"], C, "c16_var_numbering", "Compiler::var with no live local binder: the returned index selects, in the run-time list Vars::new(globals ++ imported values), the last data import of that name owned by the current module, else the last command-line variable of that name; an undefined name is reported, never mis-indexed", [CORE + "compile.rs::Compiler::var"], label="bounded", bound="2 data imports x 2 owning modules, 2 global variables, names from a 2-letter alphabet, current module 0 or 1 (all symbolic)")
ob("O-C01-binds", ["C01"], C, "c01_binds", "binds(sig, args) pairs the i-th signature kind (variable / filter) with the i-th argument id, in order", [CORE + "compile.rs::binds"], label="bounded", bound="<= 3 arguments, kinds and ids symbolic")
ob("O-C03-peek", ["C03"], C, "c03_next_if_one", "next_if_one returns an element only under size_hint upper bound Some(1); pulls nothing when it declines because of the hint; never pulls an element it does not return (ghost pull counter on the upstream iterator)", [CORE + "box_iter.rs::next_if_one"], label="bounded", bound="upstream streams of length <= 3, every honest size hint")
ob("O-C03-map", ["C03"], C, "c03_map_with", "map_with: output k is r(l_k, x); delivering it has pulled upstream at most k+1 times (+1 look-ahead only under hint Some(1)) and run r exactly k+1 times", [CORE + "box_iter.rs::map_with", CORE + "box_iter.rs::next_if_one"], label="bounded", bound="upstream streams of length <= 3, every honest size hint")
for n in range(4):
    ob(f"O-C03-flatmap-{n}", ["C03"], C, f"c03_flat_map_then_{n}", f"flat_map_then / then on upstream streams of length {n}: all outputs of upstream element k are delivered before the right-hand side runs for element k+1; an upstream error is passed through in place", [CORE + "box_iter.rs::flat_map_then", CORE + "box_iter.rs::then", CORE + "box_iter.rs::next_if_one"], label="bounded", bound=f"length {n}, every error position, every honest size hint <= 4, two outputs per element (enumerated concretely)")
ob("O-C03-then", ["C03"], C, "c03_then", "then: an Err is yielded as the single item and the continuation does not run; an Ok runs it once", [CORE + "box_iter.rs::then"])
ob("O-C03-once", ["C03"], C, "c03_collect_if_once", "collect_if_once: the generator runs once; at most one element is taken eagerly and only under hint Some(1); otherwise the stream is recreated lazily and yields every element", [CORE + "into_iter.rs::collect_if_once"], label="bounded", bound="streams of length <= 3, every honest size hint")
ob("O-C03-lazy", ["C03"], C, "c03_lazy", "filter::lazy(f): f does not run before the first next(), and runs exactly once", [CORE + "filter.rs::lazy"], label="bounded", bound="streams of length <= 3")
ob("O-C04-stack-break", ["C04", "C03"], C, "c04_stack_break", "Stack::next (Break callback): yields the next element of the topmost non-empty iterator, pops only iterators above it, and does not keep an iterator whose size_hint says exhausted", [CORE + "stack.rs::Stack::next"], label="bounded", bound="two iterators of length <= 2")
ob("O-C04-stack-tail", ["C04"], C, "c04_stack_tailcall_height", "Stack::next on a chain of tail calls (every stream yields exactly one Continue item): each exhausted caller is dropped before its callee is pushed, so the height stays <= 1", [CORE + "stack.rs::Stack::next"], label="bounded", bound="a chain of 3 tail calls")
ob("O-C04-stack-growth", ["C04"], C, "c04_stack_growth", "Stack::next growth bound: height after <= height before + number of Continue answers; a one-element stream is gone once it has yielded", [CORE + "stack.rs::Stack::next"], label="bounded", bound="bottom stream of length 0..=2 x the first two callback answers (enumerated concretely)")
for shape, what in (("index", "`.[k]`"), ("range", "`.[a:b]`")):
    for o, on in (("ess", "without `?`"), ("opt", "with `?`")):
        ob(f"O-C02-part-{shape}-{o}", ["C02"], C, f"c02_part_{shape}_{o}", f"one path step {what} {on}, for every value and key (integer tags within a range that keeps the abstract container's child / slice encoding injective) of an abstract container type that satisfies the ValT coherence between index / values / key_values / range: Part::paths yields the same values in the same order as Part::run, each with the input path extended by exactly one key k such that `v | .[k]` is the yielded value (getpath(path(p)) reproduces p), and Part::update calls the updating accessor of the same kind with the same arguments and the same `?` mark", [CORE + "path.rs::Part::run", CORE + "path.rs::Part::paths", CORE + "path.rs::Part::update"], kind="trait-contract")
ob("O-C04-stack-loose", ["C04", "C03"], C, "c04_stack_loose_hint", "Stack::next with honest but inexact size hints (0, Some(remaining)): an iterator that has yielded its last element is not kept, whether or not the callback answers with a tail call", [CORE + "stack.rs::Stack::next"], label="bounded", bound="bottom stream of length 0..=2, with / without one tail call (enumerated concretely)")
ob("O-C11-range-small", ["C11"], C, "c11_range_small", "the native range($from; $to; $by) yields exactly the outputs of its manual definition (`$from | if $by > 0 then while(. < $to; . + $by) elif $by < 0 then while(. > $to; . + $by) else while(. != $to; . + $by) end`), in order, and goes on producing exactly as long as the definition does (zero step: for ever) - exact-integer abstract value type", [CORE + "funs.rs::range"], kind="trait-contract", label="bounded", bound="from, to in -1..=2, by in -1..=1 (48 triples), first 3 outputs and whether a 4th exists; enumerated concretely")
ob("O-C11-range-steps", ["C11"], C, "c11_range_steps", "the same for steps of 2 and 3, zero steps from equal / unequal bounds, and operands at the ends of the machine-integer range without overflow", [CORE + "funs.rs::range"], kind="trait-contract", label="bounded", bound="7 concrete triples")
ob("O-C02-opt", ["C02"], C, "c02_opt_fail", "Opt::fail: Optional -> Ok(x) without running f, Essential -> Err(f(x))", [CORE + "path.rs::Opt::fail"], kind="contract")

OBS.append(dict(id="O-C01-env", properties=["C01"], backend="verus", spec="verus/rc_list.spec.json", kind="verus", label="complete", tier="quick",
    statement="the run-time environment list (Vars / Ctx): with view(): Seq<T>, new()@ = [], l.cons(x)@ = [x] + l@, l.skip(n)@ = l@.skip(min(n, |l@|)), l.head() = first element or None, l.get(n) = Some(l@[n]) iff n < |l@| - index i means the i-th most recent binding, for lists of any length (unbounded: loop invariant + Z3)",
    functions=["jaq-core/src/rc_list.rs::List::new", "jaq-core/src/rc_list.rs::List::cons", "jaq-core/src/rc_list.rs::List::head", "jaq-core/src/rc_list.rs::List::get", "jaq-core/src/rc_list.rs::List::skip"]))

# ------------------------------------------------------------------------------------ jaq-fmts
FM = "jaq-fmts/src/"
ob("O-C14-cbor-neg", ["C14", "C05"], F, "c14_cbor_decode_negative", "CBOR decode: the real parse maps Header::Negative(n) to the integer -1 - n for every 64-bit argument n - a machine integer when it fits, else the big integer of that value", [FM + "read/cbor.rs::parse"], composes_dependency=True)
ob("O-C14-cbor-pos", ["C14", "C05"], F, "c14_cbor_decode_positive", "CBOR decode: the real parse maps Header::Positive(n) to the integer n for every 64-bit argument n - a machine integer when it fits, else the big integer of that value", [FM + "read/cbor.rs::parse"])
for fmt, what, firsts in (("csv", "the RFC 4180 quoting (surrounding quotes, doubled inner quotes)", ("empty", "quote", "comma", "nl", "cr", "a")), ("tsv", "the TSV escaping (backslash-n, -r, -t, -0, -backslash)", ("empty", "bs", "tab", "nl", "cr", "nul", "n", "a"))):
    for f in firsts:
        ob(f"O-C13-{fmt}-reader-{f}", ["C13", "C14", "C05"], F, f"c13_{fmt}_reader_{f}", f"the real {fmt.upper()} field reader inverts {what}: for every field content of length <= 2 over the format's metacharacters and a letter (first character: {f}), ended by end of input, the separator or a newline, it returns exactly that content, stops at the terminator and consumes nothing else", [FM + f"read/tabular.rs::{fmt}_field", FM + "read/tabular.rs::field"], label="bounded", bound="field contents of length <= 2 over the metacharacter alphabet, three terminators; enumerated concretely", timeout=900)
ob("O-C14-csv-rows-quoted", ["C14"], F, "c14_csv_rows_quoted_empty", "the real CSV row reader (read_csv / row / Field::is_empty / From<Field>) on the text `\"\"` - exactly what `[\"\"] | tocsv` writes - yields one row holding one empty string, not the end of input", [FM + "read/tabular.rs::row", FM + "read/tabular.rs::Field::is_empty", FM + "read/tabular.rs::read_csv"], label="point", kind="point")
ob("O-C14-csv-rows-basic", ["C14"], F, "c14_csv_rows_basic", "the real CSV row reader on two texts made of empty and quoted-empty cells: a comma -> [null, null]; two rows of quoted-empty / empty cells come back cell for cell (null vs the empty string kept apart)", [FM + "read/tabular.rs::row", FM + "read/tabular.rs::Field::is_empty", FM + "read/tabular.rs::read_csv"], label="point", kind="point")
YQ = "needs_quote(s) ==> must_quote(s), where needs_quote is written from the YAML 1.2.2 core schema (strings a reader resolves to null / bool / int / float), the document markers and the rule that leading / trailing blanks are not part of a plain scalar, and must_quote is the real function deciding whether the YAML writer emits a text string plain - "
for k, what in (("core", "ten usual spellings (1, -1, 1e3, 0x1F, ~, null, True, ---, .nan, .inf)"),
                ("num", "numbers with an explicit plus sign or without an integer part (+1, .5, -.5, +.5e1)"),
                ("inf", "signed infinities (-.inf, +.inf, -.INF)"),
                ("blank", "leading and trailing blanks (` a`, `a `, a<TAB>, `a b `)"),
                ("inside", "what ends a plain scalar inside the string: blank-then-# (comment; with a space and with a tab), colon-then-blank and a trailing colon (mapping indicator), a line break"),
                ("first", "indicators in first position (#a, `- a`, a lone -, \"a)"),
                ("spec-sanity", "vacuity guard: needs_quote rejects ordinary words and near-numbers (a b, +, ., +a, 1a, e1, 0x) and accepts 1., 1.5E-3, 0o17; a#b, a:b, -a, a-, a[b are outside")):
    ob(f"O-C14-yaml-quote-{k}", ["C14"], F, "c14_yaml_quote_" + k.replace("-", "_"), (YQ + what) if k != "spec-sanity" else what, [FM + "write/yaml.rs::must_quote", FM + "write/yaml.rs::ns_plain_one_line"], label="point", kind="point")
for k, what in (("empty", "the empty key"), ("bare", "the key a-1 (written as it is)"), ("quoted", "the key `a b`")):
    ob(f"O-C14-toml-key-{k}", ["C14"], F, f"c14_toml_key_{k}", "what the real Display for Key (TOML writer) emits is a key of TOML's grammar - a NON-EMPTY run of A-Za-z0-9_- or a quoted string - for " + what, [FM + "write/toml.rs::Key::fmt"], label="point", kind="point")

CFG = {
    "trusted_base": [
        "Kani 0.68.0 (MIR->GOTO translation of the pinned nightly's core/alloc)",
        "CBMC 6.11.0 + CaDiCaL (cvc5 1.0 where an obligation names it)",
        "rustc of Kani's pinned toolchain",
        "/verif/lib overlay scanner (add-only; diff-guarded on every run)",
    ],
    "assumptions": [
        "isize/usize are 64-bit (harnesses are compiled for x86_64)",
        "third-party dependencies are not verified (num-bigint, jiff, indexmap, foldhash, bytes, bstr, hifijson, ryu, ...)",
        "spec functions in contracts/*/verif_k.rs are the formal reading of the property statement",
        "Kani's IEEE 'NaN on <op>' checks are ignored: NaN results are documented behaviour, not panics",
    ],
    "properties": {
        "C10": {
            "level": "proof",
            "explanation": "Position arithmetic under contract: every (sign,magnitude) position, every optional bound and every length (2^64 each) against the one-model spec computed in i128; callers are checked against callee contracts (stub_verified). Loop-free, so the symbolic-execution proof is complete.",
            "not_decided": "that each container accessor calls this arithmetic on the right length (array vs byte vs character count), element preservation by updates, character positions in text strings (skip_take_chars), destructuring patterns, first/last/nth, objects; BigInt indices beyond the points checked",
        },
        "C08": {
            "level": "proof",
            "explanation": "Order axioms, eq/cmp coherence, agreement with the mathematical order, and hash coherence (over the byte stream fed to any hasher) of the real Num::{cmp,eq,hash} and float_cmp, for all machine integers and all non-NaN floats (pairs and triples), one harness per combination of kinds. Loop-free (hash loops closed by unwinding assertions), hence complete.",
            "not_decided": "Dec kinds; big integers beyond 128 bits, against finite floats and in hashing beyond the points of O-C08-big (BigInt::to_f64 on a symbolic value is modelled by CBMC through an unconstrained powi, which gives spurious failures), machine integer against big integer beyond the points (timeout); the Val-level kind sequence beyond one representative per kind (O-C08-val-kinds), objects (index map) and non-empty arrays; sort/unique/group_by/bsearch/array subtraction using this order (std sort, BTreeSet, binary_search assumed correct given a total order); indexmap lookup given coherent Eq/Hash",
            "assumptions": ["the property's own domain restriction is applied: NaN excluded; integers beyond 2^53 compared only among integers or against infinities"],
        },
        "C09": {
            "level": "proof",
            "explanation": "Exactness of + - neg % on machine integers against i128 arithmetic for all 2^128 operand pairs, routing of * through checked_mul, fall-back entered with the same operands; result kinds and IEEE values of every mixed / float operation (+ - * /) bit for bit; observers. In those harnesses the fall-back int_or_big is replaced by a ghost-recording stub; its own contract (operands converted and passed in order, result wrapped) is O-C09-iob, and the operator applied by each fall-back closure is pinned at boundary points (O-C09-big-arith).",
            "not_decided": "BigInt x BigInt arithmetic (num-bigint) beyond the points, which operator the fall-back closure of `%` applies and big-integer remainders in general (num-bigint's division reaches inline assembly, unsupported by Kani), products with 2^63-sized factors (minutes or out of memory even on concrete operands), float % values (fmod), object +/* merging, array -, string / splitting, Dec operands, Val-level dispatch",
            "assumptions": ["core::isize::checked_mul is the exact product when Some, and the primitive isize % is the truncated remainder (64x64->128 multiplier / divider equivalences are SAT-hard; trusted to core)"],
        },
        "C13": {
            "level": "other",
            "explanation": "Trait-contract instances of the real implode / explode (generic over the value type, instantiated with the abstract AnyVal): implode is decided per code for every value (complete), explode;implode = id on every byte string up to the stated length (bounded, exhaustive within the bound, unwinding assertions on).",
            "not_decided": "character positions (skip_take_chars, indices, match offsets), @base64/@uri/@html/@sh/@csv/@tsv codecs (aho-corasick, base64, urlencoding), split/join, ascii_downcase/upcase (bstr), tobytes/tostring, strings longer than the bound",
            "assumptions": ["bstr::decode_utf8 is executed symbolically as compiled (the result covers jaq composed with it)", "alloc::fmt::format (error-message rendering) is replaced by a constant"],
        },
        "C20": {
            "level": "proof",
            "explanation": "The conversions jaq owns around jiff, as trait-contract instances over the abstract value type, with jiff's constructors/accessors replaced by ghost-recording stubs: what is passed to Timestamp::from_microsecond / from_second / DateTime::new is the exact mathematical value for every machine integer and every float, or an error / None is returned. Loop-free; complete.",
            "not_decided": "agreement with the proleptic Gregorian calendar, datetime_to_array's field extraction, weekday / day-of-year, strftime / strptime inverse, RFC 3339 parsing, the year range (all inside jiff); microsecond exactness of f * 10^6 beyond what IEEE gives",
            "assumptions": ["jiff's constructors and accessors are replaced by ghost-recording stubs (jiff itself is not verified)", "alloc::fmt::format (error-message rendering) is replaced by a constant"],
        },
        "C15": {
            "level": "proof",
            "explanation": "The operator table is finite: BinaryOp::precedence / associativity are compared with the manual's table for every pair of operators (all enum payloads symbolic): complete. The generic precedence-climbing engine is run on every operator sequence up to length 3 (quick) / 4 (thorough) over three abstract precedence levels and all associativity assignments and compared with the tree the table implies: bounded, exhaustive within the bound. Only complete obligations are counted as proved.",
            "not_decided": "operator sequences longer than the bound (an inductive contract on climb1 is not within reach: Verus has no Peekable / iterator support, bounded unwinding on symbolic operators is exponential), the `as $x |` special case of Term::climb (its right operand extends to the end), white space / comments beyond the enumerated bodies, the rest of the lexer (one symbolic byte exceeds 20 min), atoms, postfix ? vs prefix -, path suffixes, object-entry and pattern shorthands, elif / missing else, string interpolation, def f($x): parser and compiler desugaring",
        },
        "C16": {
            "level": "other",
            "explanation": "The index arithmetic that decides which binding a module-level `$x` denotes: the real Compiler::var on a symbolic table of data imports (with owning modules) and command-line variables, compared with a lookup in the run-time variable list as Ctx::new builds it. Bounded (2 imports x 2 modules x 2 globals, all symbolic), unwinding assertions on.",
            "not_decided": "loader graph sharing and cycle detection, search-path resolution, include-vs-import visibility of definitions (call_mod_id), live local binders (BTreeMap-based Locals: did not fit CBMC), equality with the inlined program",
        },
        "C03": {
            "level": "other",
            "explanation": "Laziness as a frame condition: the upstream iterator carries a ghost pull counter and the right-hand side closure a ghost call counter; the real combinators under Id::run (next_if_one, map_with, flat_map_then, then, collect_if_once, lazy, Stack::next) are proved to pull / run only what the delivered prefix needs. Bounded (streams <= 3, all honest size hints), unwinding assertions on.",
            "not_decided": "that each Id::run arm uses these combinators lazily, first / limit / skip / label / try-catch (closures over the interpreter context), rc_lazy_list memoisation, fold, inputs, the CLI loop, termination on infinite generators",
        },
        "C04": {
            "level": "other",
            "explanation": "The trampoline's stack discipline: Stack::next drops an exhausted caller before pushing its callee, so a chain of tail calls keeps the height <= 1; growth bound per next(). Bounded.",
            "not_decided": "the resource claim itself (native stack depth and live heap for any N), which sub-terms Compiler::term lets inherit tail-call permission (Locals::call: BTreeSet/BTreeMap did not fit CBMC), fold's empty-output branch, heap retention, iterative Drop of rc_lazy_list",
        },
        "C01": {
            "level": "other",
            "explanation": "Nearest-binding lookup rests on two index calculations: the run-time environment list (rc_list: Verus, unbounded, see O-C01-env) and the compile-time numbering (Compiler::var for imported / global variables, binds for arguments: Kani, bounded). Paper lemma (not machine-checked): var numbering + list semantics + 'every cons_* prepends exactly one binding' => a variable denotes its lexically nearest binding.",
            "assumptions": ["Verus unit: one assume_specification - `<Rc<T> as From<T>>::from(t)` returns an Rc whose content is t (std is not verified)", "Verus / Z3 and the token-checked extractor (lib/verusrun.py) are trusted for O-C01-env"],
            "not_decided": "evaluation order of compound filters (cartesian, pipe, ObjSingle, Path::combinations), bind_vars / bind_pat ordering, closures capturing the right Ctx, tail calls being invisible, live local binders in Compiler::var (BTreeMap), anything about outputs of actual programs",
        },
        "C14": {
            "level": "other",
            "explanation": "CBOR integer kernel, reader side: the arithmetic the real parse applies to the two integer major types (n -> n, n -> -1 - n via `neg as i128 ^ !0`) is proved exact for every 64-bit argument (machine or big integer result), one harness per header variant. Loop-free; complete for that function and domain. The writer side (encode of a machine integer through ciborium-ll) did not finish in CBMC (5 attempts: symbolic execution walks every arm of the recursive encode) and is not claimed. CSV / TSV, reader side: the real field readers invert the formats' quoting / escaping for every field content of length <= 2 over the metacharacter alphabet (bounded, enumerated), and the real CSV row reader is run on three texts of empty / quoted-empty cells (points: the quoted-empty last row that `[\"\"] | tocsv` writes is a row, null and the empty string stay apart). YAML: needs_quote(s) ==> must_quote(s) at literal points, with needs_quote written from the YAML 1.2.2 core schema (what a reader resolves to null / bool / int / float), the document markers and the plain-scalar rules (edge blanks, blank-#, colon-blank, line breaks, leading indicators). TOML: the key the real Display for Key writes is a non-empty bare run or a quoted string, at three literal keys.",
            "not_decided": "CBOR encode (writer side) and therefore the round trip itself; YAML (document structure, tags, anchors; plain-scalar quoting beyond the listed literals: must_quote + resolver on symbolic strings did not finish in 50 min), TOML tables and keys beyond three literals (toml-span), XML (xmlparser), the CSV / TSV writers (aho-corasick) and cells that reach the number parser, CBOR strings, floats, containers, big integers (num-bigint), --from / --to, well-formedness for independent readers",
            "assumptions": ["ciborium-ll's Header values are taken as given (the decoder that produces them is not verified)"],
        },
        "C05": {
            "level": "proof",
            "explanation": "Kani checks, on every path of every harness, arithmetic overflow, out-of-bounds indexing, slicing off bounds, unwrap / expect on None / Err, unreachable!, panic!, assert! and division by zero. 'No input can crash' is therefore the implicit postcondition of every function put under contract for the other properties, called on all arguments its callers can construct: the position arithmetic and integer / float operators of jaq-json, Num::length, the generic kernels of jaq-std (implode, explode, round, try_as_i32, the conversions around jiff) over the abstract value type, the CBOR integer arms. Complete obligations only are counted as proved; bounded ones are listed separately.",
            "not_decided": "panics inside dependencies on hostile input (YAML / XML / TOML / regex parsers), the panic!() arms that rely on third-party parser invariants, the lexer, parser and compiler on arbitrary filter text, diagnostics rendering and span arithmetic, the product of all natives x all arguments, Val-level dispatch (index_opt, range, map_index, map_range, arithmetic on containers and strings), skip_take_chars / bytes_splice, CSV / TSV readers, stack / memory exhaustion (excepted by the property)",
            "assumptions": ["third-party callees are stubbed or excluded as stated per obligation"],
        },
        "C02": {
            "level": "other",
            "explanation": "The three evaluators bottom out in Part::{run, paths, update}. These are generic over the value type and are verified as trait-contract instances with an abstract container (RecVal: a value is a tag, children / slices / range keys are injective functions of the tags, coherent as ValT documents): for each shape of path step and every tag, paths and run yield the same values in the same order, every yielded path is the input path plus exactly one key that indexes to the yielded value, and update addresses the same accessor with the same arguments and `?` mark. Complete per registered shape (`.[k]`, `.[a:b]`, each with and without `?`) over all tags.",
            "not_decided": "that Id::paths and Id::update select like Id::run for pipes, commas, bindings, conditionals, folds, `//`, `..`, first / last / limit / skip, natives and definitions; multi-step paths (path::run / path::update recursion), the iteration step `.[]` and the half-open slices `.[a:]` / `.[:b]` (their harnesses exist but are unstable: 83 s in one run, > 600 s in others; not registered), that jaq_json::Val satisfies the coherence assumed of the container (Val-level harnesses do not fit CBMC), the defs.jq derived filters (paths, getpath, del, to_entries ...), assignment-operator desugaring",
            "assumptions": ["the abstract container's index / values / key_values / range are mutually coherent, as the ValT trait documents; nothing is assumed about which concrete type it is"],
        },
        "C07": {
            "level": "other",
            "explanation": "The writer half of the string round trip is finite: for each of the 256 byte values the real write_byte! macro (with the two fall-back expressions its callers pass) is run into a recording fmt::Write and compared with the escape RFC 8259 section 7 prescribes. Exhaustive over u8 in the thorough tier (16 harnesses of 16 bytes); the quick tier covers the control characters, the quote, and DEL / the first non-ASCII block. This decides 'what jaq writes for a string byte is what RFC 8259 says'; it does not decide the round trip. The whole write_utf8! macro (predicate and splitting included) is additionally run at the boundaries of its is_special predicate (0x00, 0x1f, 0x20, 0x22, 0x5c, 0x7e, 0x7f, 0x80), one byte per harness: points. On the reader side only the number classifier parse_num is reached, at points run through hifijson's real slice lexer: exponent-without-dot and fraction literals stay decimals with their text kept character for character, lone signs and dangling `.` / `e` are reported errors (not a panic), integer literals are handed whole to the integer parser in base 10; and the string reader parse_string at four literals (invalid UTF-8 copied as-is, \\xNN in byte strings is the byte NN, the two-character escapes, \\uXXXX). write_buf, the writer behind tojson, is run on a string with an invalid byte and on null / true (points).",
            "not_decided": "the string reader beyond four literals (hifijson lexer), hence print-then-parse = id itself; number literals beyond the listed points and the integer parser (core / num-bigint); the splitting logic of write_utf8! beyond one-byte strings at the listed boundary bytes; shortest-round-trip float printing (ryu), big-integer and decimal literals, key order (indexmap), nesting, indentation / sort_keys, the CLI path, agreement with an independent RFC 8259 parser",
            "assumptions": ["core::fmt (format_args!, LowerHex, char::escape_default) is executed as compiled on concrete bytes"],
        },
        "C11": {
            "level": "other",
            "explanation": "Only `range/3` is decided: the native funs::range, generic over the value type, instantiated with an exact-integer abstract value (checked +, derived order), is compared output for output with the manual's `while` definition on concretely enumerated small operand triples (all sign combinations of the step, empty ranges, zero step from equal and unequal bounds, steps that skip past the bound). Bounded; and O-C11-once (the shape `last` / `min_by` return through) is complete but tiny.",
            "not_decided": "the overflowing-step case (error delivered once, then end of stream: its harness exceeded 400 s), first / last / limit / skip (closures over the interpreter context) and hence the limit / skip inverse law, reduce / foreach (fold::fold: one concrete case exceeded 300 s), every defs.jq definition (repeat, recurse, while, until, isempty, any, all, nth, add, range/1, range/2): jq source, not Rust",
            "assumptions": ["the abstract integer type's + and order are exact; that jaq_json::Val's are is C09 / C08"],
        },
        "C12": {
            "level": "other",
            "explanation": "Of the collection built-ins the native numeric kernel round / floor / ceil (ValTx::round) is decided as a trait-contract instance over the abstract value type with the rounding function abstracted to any float result (complete over f64). Val::contains (arrays) and Val::indices (arrays, byte strings, text strings, element argument) are run on concrete containers at a handful of points each - enough to pin down window positions, overlap, character vs byte counting, the empty pattern and the longer-argument case, nothing more. The sorting / grouping / extremum kernels (sort_by, group_by, cmp_by) are closures over boxed key streams and did not fit CBMC (cmp_by over three u8 elements with one-element key streams > 400 s, retried at the end of the build); everything defined in defs.jq is jq source.",
            "not_decided": "sort_by / group_by / unique_by / min_by / max_by laws (stability included), keys = keys_unsorted | sort, to_entries / from_entries / with_entries, indices and contains beyond the listed points (substring search reaches memchr inline assembly), contains on objects, bsearch, flatten, transpose, walk, del, paths, pick, join, splits, ltrimstr family",
        },
    },
    "obligations": OBS,
}

if __name__ == "__main__":
    ids = [o["id"] for o in OBS]
    assert len(ids) == len(set(ids)), "duplicate obligation id"
    (VERIF / "obligations.json").write_text(json.dumps(CFG, indent=1))
    print(len(OBS), "obligations")
