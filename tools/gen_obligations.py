#!/usr/bin/env python3
"""Source of truth for /verif/obligations.json (run after editing: tools/gen_obligations.py).

An obligation = one harness (Kani) or one verifier run (Verus) with: the properties it serves,
the real functions it puts under contract, its label (complete | bounded | point), its tier.
"""
import json
from pathlib import Path

VERIF = Path(__file__).resolve().parent.parent
OBS = []


def ob(id, props, crate, harness, statement, functions, label="complete", kind="lemma", tier="quick", **kw):
    d = dict(id=id, properties=props, crate=crate, harness="verif_k::" + harness, kind=kind, label=label,
             tier=tier, statement=statement, functions=functions)
    d.update(kw)
    OBS.append(d)


J, S, C, F = "jaq-json", "jaq-std", "jaq-core", "jaq-fmts"
NUM = "jaq-json/src/num.rs::"
LIB = "jaq-json/src/lib.rs::"

# ------------------------------------------------------------------------------------ C10
ob("O-C10-wrap", ["C10", "C05"], J, "c10_wrap", "PosUsize::wrap(len) is Some(pos) for the absolute position pos = n (non-negative) or len - n (negative) when that is >= 0, else None; for every (sign, magnitude) and every len", [NUM + "PosUsize::wrap"], kind="contract")
ob("O-C10-bound", ["C10", "C05"], J, "c10_abs_bound", "abs_bound: an absent bound is the default; a given bound is its absolute position clipped into 0..=len (caller of wrap checked against wrap's contract only)", [LIB + "abs_bound"], kind="contract", stubs=["PosUsize::wrap"])
ob("O-C10-index", ["C10", "C05"], J, "c10_abs_index", "abs_index: Some(pos) iff 0 <= pos < len, for every position and len", [LIB + "abs_index"], kind="contract", stubs=["PosUsize::wrap"])
ob("O-C10-skiptake", ["C10", "C05"], J, "c10_skip_take", "skip_take: (from, max(upto-from,0)) with from/upto the clipped bounds (null = open); skip+take <= len", [LIB + "skip_take"], kind="contract", stubs=["abs_bound"])
ob("O-C10-skiptake-bytes", ["C10", "C05"], J, "c10_skip_take_bytes", "skip_take_bytes applies the same model to the byte length", [LIB + "skip_take_bytes"], label="bounded", bound="byte strings of length <= 8; the function reads only the length", stubs=["skip_take"])
ob("O-C10-posusize", ["C10", "C05", "C09"], J, "c10_as_pos_usize_int", "Num::as_pos_usize maps every machine integer to (i >= 0, |i|), floats to None, and establishes the type invariant (negative => magnitude >= 1)", [NUM + "Num::as_pos_usize"])
ob("O-C10-index-model", ["C10"], J, "c10_index_model", "top level: for every machine integer i and every len, as_pos_usize followed by abs_index reads position (i >= 0 ? i : len + i) iff it lies in 0..len, and nothing otherwise", [NUM + "Num::as_pos_usize", LIB + "abs_index"], stubs=["abs_index"])
ob("O-C10-slice-model", ["C10"], J, "c10_slice_model", "top level: for all optional machine-integer bounds and every len, the selected slice is [clip(pos(start)), max(clip(pos(end)), clip(pos(start)))) with null = open", [NUM + "Num::as_pos_usize", LIB + "skip_take"], stubs=["skip_take"])

# ------------------------------------------------------------------------------------ C08
ob("O-C08-float", ["C08"], J, "c08_float_cmp_order", "float_cmp is a total preorder on non-NaN floats (reflexive, antisymmetric, transitive over all triples), float_eq <=> Equal, and it agrees with IEEE <, ==, > (so -inf < finite < +inf, -0 == +0)", [NUM + "float_cmp", NUM + "float_eq"])
for k, kinds in (("ii", "Int,Int"), ("if", "Int,Float"), ("fi", "Float,Int"), ("ff", "Float,Float")):
    ob(f"O-C08-num-{k}", ["C08"], J, f"c08_num_cmp_{k}", f"Num::cmp / eq / partial_cmp on all ({kinds}) pairs: eq <=> cmp == Equal, antisymmetric, reflexive, and equal to the mathematical order on the property's domain (|int| <= 2^53 against finite floats)", [NUM + "Num::cmp", NUM + "Num::eq", NUM + "Num::partial_cmp"])
for k in ("iii", "iif", "ifi", "iff", "fii", "fif", "ffi", "fff"):
    ob(f"O-C08-trans-{k}", ["C08"], J, f"c08_num_trans_{k}", "transitivity of <= and of == over all number triples of kinds " + k + " (i = machine integer, f = float) inside the property's domain", [NUM + "Num::cmp", NUM + "Num::eq"])
for k, kinds in (("ii", "Int,Int"), ("if", "Int,Float"), ("ff", "Float,Float")):
    ob(f"O-C08-hash-{k}", ["C08"], J, f"c08_num_hash_{k}", f"equal numbers are interchangeable keys: for all ({kinds}) pairs, a == b implies Num::hash feeds the hasher the identical byte stream (independent of the hash function); every stream starts with a tag < 2 as Val::hash assumes", [NUM + "Num::hash", NUM + "Num::eq"],
       inlang={"filter": "{($a):1,\"x\":2}|has($b)", "doc": "a, b = the two numbers of the counterexample; must print true"})

# ------------------------------------------------------------------------------------ C09
ob("O-C09-add", ["C09", "C05"], J, "c09_int_add", "Int + Int: the exact sum (i128) as Num::Int when it fits, otherwise the big-integer fall-back is entered with the same operands in the same order; never wraps, never panics", [NUM + "Num::add"], stubs=["int_or_big"])
ob("O-C09-sub", ["C09", "C05"], J, "c09_int_sub", "Int - Int: exact difference or fall-back with the same operands in order", [NUM + "Num::sub"], stubs=["int_or_big"])
ob("O-C09-neg", ["C09", "C05"], J, "c09_int_neg", "-Int: exact negation or fall-back (isize::MIN)", [NUM + "Num::neg"], stubs=["int_or_big"])
ob("O-C09-mul", ["C09", "C05"], J, "c09_int_mul_routing", "Int * Int: Int(z) exactly when checked_mul gives Some(z), else fall-back with the same operands (exactness of core's checked_mul trusted)", [NUM + "Num::mul"], stubs=["int_or_big"])
ob("O-C09-rem", ["C09", "C05"], J, "c09_int_rem", "Int % Int (divisor != 0) is an integer equal to the primitive truncated remainder, with isize::MIN % -1 == 0; no panic (the primitive's exactness is core's contract)", [NUM + "Num::rem"], solver="cvc5")
ob("O-C09-rem-bounds", ["C09"], J, "c09_int_rem_bounds", "Int % Int (divisor != 0): |result| < |divisor| and the result is 0 or has the sign of the dividend, for all operands", [NUM + "Num::rem"])
ob("O-C09-zero", ["C09"], J, "c09_zero_guard", "the guard Val::rem uses (y == Num::Int(0)) holds exactly for zero divisors among machine integers and floats", [NUM + "Num::eq"])
for k, kinds in (("ff", "Float,Float"), ("if", "Int,Float"), ("fi", "Float,Int")):
    for opn, op in (("add", "+"), ("sub", "-"), ("mul", "*"), ("div", "/")):
        kw = {"solver": "cvc5"}
        ob(f"O-C09-{k}-{opn}", ["C09", "C05"], J, f"c09_{k}_{opn}", f"({kinds}) {op}: the result is a float, bit for bit the IEEE result of the operands converted with `as f64`, in the order written", [NUM + "Num::" + opn], **kw)
ob("O-C09-ii-div", ["C09", "C05"], J, "c09_ii_div", "Int / Int is the IEEE quotient of the converted operands (division by zero included), never an integer", [NUM + "Num::div"], solver="cvc5")
ob("O-C09-rem-kind", ["C09", "C05"], J, "c09_rem_kind", "% with a float on either side yields a float and never panics (value = fmod, not decided)", [NUM + "Num::rem"])
ob("O-C09-neg-float", ["C09"], J, "c09_neg_float", "-Float is the IEEE negation", [NUM + "Num::neg"])
ob("O-C09-observers", ["C09"], J, "c09_observers", "is_int / as_isize / as_f64 on Num and on Val give the value-level answer for machine integers and floats; null and booleans are not numbers (Val's conformance to the jaq_std::ValT observer contract)", [NUM + "Num::is_int", NUM + "Num::as_isize", NUM + "Num::as_f64", LIB + "Val::is_int", LIB + "Val::as_isize", LIB + "Val::as_f64"])
ob("O-C05-length", ["C05"], J, "c05_num_length", "Num::length (absolute value) is exact for every machine integer (isize::MIN goes to the big-integer representation) and for floats; never panics", [NUM + "Num::length"], stubs=["int_or_big"],
   inlang={"filter": "$a|length", "doc": "a = the integer of the counterexample"})

# ------------------------------------------------------------------------------------ jaq-std (trait-contract instances, AnyVal)
STD = "jaq-std/src/lib.rs::"
TIME = "jaq-std/src/time.rs::"
FMT = ["fmt::format"]
ob("O-C13-implode", ["C13", "C05", "C09"], S, "c13_implode_one", "implode on one code, for every value of the abstract value type: codes -255..0 give that byte, Unicode scalar values their UTF-8 encoding (Unicode table 3-6), everything else (non-integers, surrogates, > 0x10FFFF, < -255, isize::MIN) is rejected with an error; never wraps, never panics", [STD + "implode", STD + "ValTx::try_as_isize"], kind="trait-contract", stubs=FMT,
   inlang={"filter": "[$a]|implode", "doc": "a = the integer code of the counterexample"})
ob("O-C13-implode2", ["C13", "C05"], S, "c13_implode_two", "implode on two codes: the output is the concatenation of the per-code outputs; the first rejected code ends it with an error; empty input gives the empty string", [STD + "implode"], kind="trait-contract", label="bounded", bound="arrays of <= 2 codes, each code unconstrained", stubs=FMT)
ob("O-C13-explode1", ["C13", "C05"], S, "c13_explode_implode_1", "explode then implode is the identity on every byte string of length <= 1 (valid or invalid UTF-8); every emitted code is a scalar value or a negated byte", [STD + "explode", STD + "Explode::next", STD + "implode"], kind="trait-contract", label="bounded", bound="all byte strings of length <= 1 (exhaustive)", stubs=FMT)
ob("O-C13-explode2", ["C13", "C05"], S, "c13_explode_implode_2", "explode then implode is the identity on every byte string of length <= 2", [STD + "explode", STD + "Explode::next", STD + "implode"], kind="trait-contract", label="bounded", bound="all byte strings of length <= 2 (exhaustive)", stubs=FMT)
ob("O-C13-explode3", ["C13"], S, "c13_explode_implode_3", "explode then implode is the identity on every byte string of length <= 3", [STD + "explode", STD + "Explode::next", STD + "implode"], kind="trait-contract", label="bounded", bound="all byte strings of length <= 3 (exhaustive)", stubs=FMT, tier="thorough", timeout=1800)
ob("O-C09-round", ["C09", "C12", "C05"], S, "c09_round", "ValTx::round (floor/round/ceil) with the rounding function abstracted to any float result y: integers unchanged; finite y in [-2^63, 2^63) becomes exactly that integer; finite y outside goes through decimal text (exact); non-finite y stays a float; non-numbers are an error", [STD + "ValTx::round"], kind="trait-contract", stubs=FMT,
   inlang={"filter": "$a|round", "doc": "a = the float of the counterexample"})
ob("O-C05-i32", ["C05"], S, "c05_try_as_i32", "try_as_i32 (exit codes, ldexp-style arguments): the exact integer or an error, never a truncation", [STD + "ValTx::try_as_i32"], kind="trait-contract", stubs=FMT)
ob("O-C20-epoch", ["C20", "C05"], S, "c20_epoch_to_timestamp", "epoch_to_timestamp: jiff receives exactly i * 10^6 microseconds for every machine integer i (computed in i128) or an error is returned - never a wrapped product; floats pass (f * 10^6) as i64, and a non-finite input never becomes an instant jiff accepts (NaN is an error, never the epoch); non-numbers are errors", [TIME + "epoch_to_timestamp"], kind="trait-contract", stubs=["from_microsecond", "fmt::format"],
   inlang={"filter": "$a|gmtime", "doc": "a = the number of the counterexample"})
ob("O-C20-iso", ["C20", "C05"], S, "c20_to_iso8601", "to_iso8601: machine integers are passed to jiff unchanged as whole seconds; other numbers as for epoch_to_timestamp", [TIME + "to_iso8601"], kind="trait-contract", stubs=["from_microsecond", "from_second", "fmt::format"],
   inlang={"filter": "$a|todate", "doc": "a = the number of the counterexample"})
ob("O-C20-back", ["C20"], S, "c20_timestamp_to_epoch", "timestamp_to_epoch: whole seconds come back as the exact machine integer, fractional instants as microseconds / 10^6", [TIME + "timestamp_to_epoch"], kind="trait-contract", stubs=["as_second", "as_microsecond"], solver="cvc5")
ob("O-C20-array", ["C20", "C05"], S, "c20_array_fields", "array_to_datetime: DateTime::new receives exactly (year, month + 1, day, hour, minute) as mathematical integers whenever it is called; a field that is not a machine integer or does not fit its range gives None - never a wrapped or saturated value, never a panic", [TIME + "array_to_datetime"], kind="trait-contract", stubs=["DateTime::new"],
   inlang={"filter": "[$a,$b,$c,$d,$e,0]|mktime", "doc": "a..e = year, month, day, hour, minute of the counterexample"})
ob("O-C20-array-short", ["C20", "C05"], S, "c20_array_short", "array_to_datetime: arrays with fewer than 6 elements are rejected without calling jiff", [TIME + "array_to_datetime"], kind="trait-contract", label="bounded", bound="arrays of length 0..5")
ob("O-C20-seconds", ["C20", "C05"], S, "c20_array_seconds", "array_to_datetime, seconds field: a second value inside the i8 range is passed as its floor; NaN and out-of-range values are never turned into a valid second 0..=59; a non-number gives None", [TIME + "array_to_datetime"], kind="trait-contract", stubs=["DateTime::new"],
   inlang={"filter": "[2000,0,1,0,0,$a]|mktime", "doc": "a = the seconds value of the counterexample"})
ob("O-C11-once", ["C11"], S, "c11_once_or_empty", "once_or_empty: Ok(Some x) -> [Ok x], Ok(None) -> [], Err e -> [Err e]", [STD + "once_or_empty"], kind="contract")

CFG = {
    "trusted_base": [
        "Kani 0.68.0 (MIR->GOTO translation of the pinned nightly's core/alloc)",
        "CBMC 6.11.0 + CaDiCaL (cvc5 1.0 where an obligation names it)",
        "rustc of Kani's pinned toolchain",
        "/verif/lib overlay scanner (add-only; diff-guarded on every run)",
    ],
    "assumptions": [
        "isize/usize are 64-bit (harnesses are compiled for x86_64)",
        "third-party dependencies are not verified (num-bigint, jiff, indexmap, foldhash, bytes, bstr, hifijson, ryu, ...)",
        "spec functions in contracts/*/verif_k.rs are the formal reading of the property statement",
        "Kani's IEEE 'NaN on <op>' checks are ignored: NaN results are documented behaviour, not panics",
    ],
    "properties": {
        "C10": {
            "level": "proof",
            "explanation": "Position arithmetic under contract: every (sign,magnitude) position, every optional bound and every length (2^64 each) against the one-model spec computed in i128; callers are checked against callee contracts (stub_verified). Loop-free, so the symbolic-execution proof is complete.",
            "not_decided": "that each container accessor calls this arithmetic on the right length (array vs byte vs character count), element preservation by updates, character positions in text strings (skip_take_chars), destructuring patterns, first/last/nth, objects; BigInt indices beyond the points checked",
        },
        "C08": {
            "level": "proof",
            "explanation": "Order axioms, eq/cmp coherence, agreement with the mathematical order, and hash coherence (over the byte stream fed to any hasher) of the real Num::{cmp,eq,hash} and float_cmp, for all machine integers and all non-NaN floats (pairs and triples), one harness per combination of kinds. Loop-free (hash loops closed by unwinding assertions), hence complete.",
            "not_decided": "BigInt and Dec kinds (num-bigint cannot be executed symbolically); Val-level kind sequence, strings, arrays, objects; sort/unique/group_by/bsearch/array subtraction using this order (std sort, BTreeSet, binary_search assumed correct given a total order); indexmap lookup given coherent Eq/Hash",
            "assumptions": ["the property's own domain restriction is applied: NaN excluded; integers beyond 2^53 compared only among integers or against infinities"],
        },
        "C09": {
            "level": "proof",
            "explanation": "Exactness of + - neg % on machine integers against i128 arithmetic for all 2^128 operand pairs, routing of * through checked_mul, fall-back entered with the same operands; result kinds and IEEE values of every mixed / float operation (+ - * /) bit for bit; observers. The big-integer fall-back itself (num-bigint) is replaced by a ghost-recording stub.",
            "not_decided": "BigInt x BigInt arithmetic (num-bigint), which operator the fall-back closure applies (pinned only by the test suite), float % values (fmod), object +/* merging, array -, string / splitting, Dec operands, Val-level dispatch",
            "assumptions": ["core::isize::checked_mul is the exact product when Some, and the primitive isize % is the truncated remainder (64x64->128 multiplier / divider equivalences are SAT-hard; trusted to core)"],
        },
        "C13": {
            "level": "other",
            "explanation": "Trait-contract instances of the real implode / explode (generic over the value type, instantiated with the abstract AnyVal): implode is decided per code for every value (complete), explode;implode = id on every byte string up to the stated length (bounded, exhaustive within the bound, unwinding assertions on).",
            "not_decided": "character positions (skip_take_chars, indices, match offsets), @base64/@uri/@html/@sh/@csv/@tsv codecs (aho-corasick, base64, urlencoding), split/join, ascii_downcase/upcase (bstr), tobytes/tostring, strings longer than the bound",
            "assumptions": ["bstr::decode_utf8 is executed symbolically as compiled (the result covers jaq composed with it)", "alloc::fmt::format (error-message rendering) is replaced by a constant"],
        },
        "C20": {
            "level": "proof",
            "explanation": "The conversions jaq owns around jiff, as trait-contract instances over the abstract value type, with jiff's constructors/accessors replaced by ghost-recording stubs: what is passed to Timestamp::from_microsecond / from_second / DateTime::new is the exact mathematical value for every machine integer and every float, or an error / None is returned. Loop-free; complete.",
            "not_decided": "agreement with the proleptic Gregorian calendar, datetime_to_array's field extraction, weekday / day-of-year, strftime / strptime inverse, RFC 3339 parsing, the year range (all inside jiff); microsecond exactness of f * 10^6 beyond what IEEE gives",
            "assumptions": ["jiff's constructors and accessors are replaced by ghost-recording stubs (jiff itself is not verified)", "alloc::fmt::format (error-message rendering) is replaced by a constant"],
        },
    },
    "obligations": OBS,
}

if __name__ == "__main__":
    ids = [o["id"] for o in OBS]
    assert len(ids) == len(set(ids)), "duplicate obligation id"
    (VERIF / "obligations.json").write_text(json.dumps(CFG, indent=1))
    print(len(OBS), "obligations")
