#!/bin/bash
# run_seed.sh <seed dir name> [tier] : apply a seeded change to /repo, run the property's check, undo.
set -u
d=/verif/seeded/$1; tier=${2:-quick}
prop=$(python3 -c "import json;print(json.load(open('$d/meta.json'))['property'])")
git -C /repo diff --quiet || { echo "/repo not clean"; exit 2; }
git -C /repo apply "$d/patch.diff" || exit 2
/verif/bin/check $prop --tier $tier > /tmp/seedrun-$1.log 2>&1; rc=$?
git -C /repo checkout -- .
echo "SEED $1 ($prop, $tier): exit=$rc $(grep -c '^VIOLATION' /tmp/seedrun-$1.log) violation(s): $(grep -E '^  obligation' /tmp/seedrun-$1.log | cut -c1-160 | tr '\n' ' ')"
grep -E "in-language|native replay" /tmp/seedrun-$1.log | cut -c1-200
