#!/bin/bash
# run_seed.sh <seed dir name> [tier] [property] : apply a seeded change to a scratch clone of
# /repo (so that /repo itself and the committed evidence stay untouched while other runs are in
# progress), run the property's check against it, remove the clone, and record the outcome in
# the seed's meta.json.   With SEED_IN_REPO=1 the change is applied to /repo itself and undone
# straight afterwards (git -C /repo apply / checkout -- .), as the task brief describes.
set -u
d=/verif/seeded/$1; tier=${2:-quick}
prop=${3:-$(python3 -c "import json;print(json.load(open('$d/meta.json'))['property'])")}
out=/var/tmp/seedout-$1; rm -rf "$out"; mkdir -p "$out"
if [ "${SEED_IN_REPO:-0}" = 1 ]; then
  git -C /repo diff --quiet || { echo "/repo not clean"; exit 2; }
  git -C /repo apply "$d/patch.diff" || exit 2
  VERIF_OUT=$out /verif/bin/check $prop --tier $tier > $out/run.log 2>&1; rc=$?
  git -C /repo checkout -- .
else
  clone=/var/tmp/seedrepo-$1; rm -rf "$clone"
  git clone -q /repo "$clone" || exit 2
  git -C "$clone" apply "$d/patch.diff" || { rm -rf "$clone"; exit 2; }
  VERIF_REPO=$clone VERIF_OUT=$out /verif/bin/check $prop --tier $tier > $out/run.log 2>&1; rc=$?
  rm -rf "$clone"
fi
python3 - "$d" "$prop" "$tier" "$rc" $out/run.log <<'PY'
import json, re, subprocess, sys, time
d, prop, tier, rc, log = sys.argv[1:6]
text = open(log).read()
obs = re.findall(r"^  obligation (\S+):", text, re.M)
m = json.load(open(d + "/meta.json"))
rec = {"cmd": f"bin/check {prop} --tier {tier}", "exit": int(rc), "violated_obligations": obs,
       "verif_commit": subprocess.run(["git", "-C", "/verif", "rev-parse", "--short", "HEAD"], capture_output=True, text=True).stdout.strip(),
       "at": time.strftime("%Y-%m-%dT%H:%M:%SZ", time.gmtime())}
m["checks_run"] = [r for r in m.get("checks_run", []) if r.get("cmd") != rec["cmd"]] + [rec]
hits = [r for r in m["checks_run"] if r["exit"] == 1 and r["violated_obligations"]]
if hits:
    best = sorted(hits, key=lambda r: "thorough" in r["cmd"])[0]
    m["caught_by"] = ", ".join(best["violated_obligations"]) + (" (thorough tier)" if "thorough" in best["cmd"] else "")
else:
    m["caught_by"] = ""
json.dump(m, open(d + "/meta.json", "w"), indent=1)
PY
echo "SEED $1 ($prop, $tier): exit=$rc $(grep -c '^VIOLATION' $out/run.log) violation(s): $(grep -E '^  obligation' $out/run.log | cut -c1-160 | tr '\n' ' ')"
grep -E "in-language|native replay" $out/run.log | cut -c1-200
rm -rf "$out"
