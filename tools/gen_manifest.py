#!/usr/bin/env python3
"""Generate /verif/MANIFEST.json from obligations.json + the per-property texts below."""
import json
from pathlib import Path
VERIF = Path(__file__).resolve().parent.parent
cfg = json.loads((VERIF / "obligations.json").read_text())

TEXT = {
 "C01": ("other", "Decides the two index calculations nearest-binding lookup rests on: the run-time environment list (rc_list::List new/cons/head/get/skip against a Seq view, Verus, unbounded) and the compile-time numbering of imported/global variables and argument binding (Kani, bounded). Not the equivalence of Id::run with the manual's semantics.", "DESIGN.md 6 C01"),
 "C02": ("other", "One path step only: Part::{run, paths, update} as trait-contract instances over an abstract container - paths and run yield the same values in order, each yielded path is the input path plus one key that indexes to the value, update addresses the same accessor with the same arguments and `?` mark - for `.[k]` and `.[a:b]`. Not the agreement of Id::run / Id::paths / Id::update on whole filters.", "DESIGN.md 6 C02, 9.1"),
 "C03": ("other", "Laziness as a frame condition over ghost pull/call counters: the real combinators under the interpreter (next_if_one, map_with, flat_map_then, then, collect_if_once, lazy, Stack::next) pull and run only what the delivered prefix needs. Bounded (streams <= 3).", "DESIGN.md 6 C03"),
 "C04": ("other", "The trampoline's stack discipline (Stack::next drops an exhausted caller before pushing its callee; growth bound per step), bounded. The resource claim itself is not a function postcondition and is not decided.", "DESIGN.md 6 C04"),
 "C05": ("proof", "Absence of panics / overflow / out-of-bounds / unwrap failures as the implicit postcondition of every function under contract (Kani checks them on every path), over the full input domain for the complete obligations: position arithmetic, integer and float operators, Num::length, implode, round, try_as_i32, the conversions around jiff, CBOR integer decoding.", "DESIGN.md 6 C05"),
 "C07": ("other", "The writer half of string round-tripping: for every byte value the real write_byte! macro (with its callers' fall-back expressions) writes the escape RFC 8259 section 7 prescribes (exhaustive over u8 in the thorough tier). On the reader side the number classifier parse_num and the string reader parse_string are run at literal points through the real lexer (decimal literals kept character for character, lone signs rejected, \\xNN as a byte, invalid UTF-8 preserved), and write_buf at points. The round trip itself is not decided.", "DESIGN.md 6 C07, 9.1, 9.4"),
 "C08": ("proof", "Order axioms, eq/cmp coherence, agreement with the mathematical order and hash coherence (over the byte stream fed to any hasher) of the real Num::{cmp,eq,hash} and float_cmp for all machine integers and non-NaN floats, pairs and triples.", "DESIGN.md 6 C08"),
 "C09": ("proof", "Exactness of + - neg % on machine integers against i128 arithmetic for all operand pairs, routing of * through checked_mul, fall-back entered with the same operands; result kinds and bit-exact IEEE values of mixed/float + - * /; round/floor/ceil at the 2^63 boundary.", "DESIGN.md 6 C09"),
 "C10": ("proof", "Kani function contracts on the real position arithmetic (PosUsize::wrap, abs_bound, abs_index, skip_take, as_pos_usize) against an i128 spec of the one position model, for all 2^64 positions/lengths; callers verified against callee contracts.", "DESIGN.md 6 C10"),
 "C11": ("other", "Only range/3: the native funs::range equals its manual `while` definition on concretely enumerated small operand triples, over an exact-integer abstract value type (bounded); plus once_or_empty. first/last/limit/skip, reduce/foreach and the defs.jq definitions are not decided.", "DESIGN.md 6 C11, 9.1"),
 "C12": ("other", "The native numeric kernel round/floor/ceil is decided (complete over f64 with the rounding function abstracted); Val::contains (arrays) and Val::indices (arrays, byte strings, text strings) at a handful of literal points each; the sorting/grouping kernels did not fit and everything in defs.jq is jq source.", "DESIGN.md 6 C12, 9.3, 9.4"),
 "C13": ("other", "implode decided per code for every value (complete); explode;implode = id on every byte string up to length 2 (quick) / 3 (thorough), exhaustive within the bound; trait-contract instances over an abstract value type.", "DESIGN.md 6 C13"),
 "C14": ("other", "CBOR reader-side integer arithmetic (Header::Positive / Negative -> machine integer) exact for every argument, per header variant (complete). CSV / TSV field readers invert the formats' quoting for all contents <= 2 bytes over the metacharacter alphabet (bounded). At literal points only: the CSV row reader on empty / quoted-empty cells; YAML must_quote against a needs_quote written from the YAML 1.2.2 core schema and plain-scalar rules; the TOML key writer against TOML's key grammar. Writers of CBOR / CSV / TSV, XML, document structure of YAML / TOML and the round trips themselves are not decided.", "DESIGN.md 6 C14, 9.2, 9.4"),
 "C15": ("proof", "BinaryOp::precedence / associativity equal the manual's table for every pair of operators (finite domain, all enum payloads symbolic).", "DESIGN.md 6 C15"),
 "C16": ("other", "The variable-numbering arithmetic that decides which data import / command-line variable a module-level $x denotes (Compiler::var), against a lookup in the run-time list; bounded, all table contents symbolic.", "DESIGN.md 6 C16"),
 "C20": ("proof", "The conversions jaq owns around jiff (epoch scaling, to_iso8601, array_to_datetime field mapping, timestamp_to_epoch) as trait-contract instances over an abstract value type with jiff's constructors ghost-stubbed: exact value passed or error, for every machine integer and float.", "DESIGN.md 6 C20"),
}
NA = {
 "C06": "absence of system calls over all natives and decoders is not a pre/postcondition of any function; neither Kani nor Verus has an OS model or effect system (a syntactic scan would be a different technique)",
 "C17": "quantifies over process histories (stdout bytes, flush points, exit status across ~25 options); Cli::parse reads the process environment and the main loop is closures over dyn Write - no contractable function states the property",
 "C18": "quantifies over crash points and file-system states; neither verifier models a file system or process death",
 "C19": "quantifies over thread schedules; Kani has no thread support and Verus would need permission types the code does not use (Send + Sync is discharged by rustc's trait solver)",
}
claimed = [p for p in sorted(cfg["properties"]) if p in TEXT]
checks = []
for p in claimed:
    cat, text, ref = TEXT[p]
    assert cat == cfg["properties"][p]["level"], p
    checks.append({
        "property_id": p,
        "quick_cmd": f"bin/check {p} --tier quick",
        "thorough_cmd": f"bin/check {p} --tier thorough",
        "evidence_file": f"/verif/evidence/{p}.json",
        "replay_cmd_template": f"bin/check {p} --replay {{path}}",
        "engine": "kani-contracts" if p != "C01" else "kani-contracts+verus",
        "level_claimed": {"category": cat, "text": text, "design_ref": ref},
        "level_note": "Trusted: Kani 0.68 / CBMC 6.11 / CaDiCaL / cvc5 (Verus / Z3 for C01-env), rustc; 64-bit target; third-party dependencies stubbed or trusted as listed in the evidence; spec functions in contracts/*/verif_k.rs are the formal reading of the statement. Not decided: " + cfg["properties"][p].get("not_decided", ""),
        "technique": "contract-based deductive verification: Kani function contracts / full-domain proof harnesses on an add-only overlay of the real crates" + ("; Verus on mechanically extracted functions" if p == "C01" else ""),
    })
m = {
 "version": 1,
 "setup_cmd": "python3 tools/selftest.py",
 "hooks": {
  "guard": "cfg(kani) (set only by cargo-kani, on a scratch snapshot of /repo; nothing guarded is committed to /repo)",
  "enable": "every check snapshots /repo's working tree (rsync, no target/.git), applies the add-only overlay described in contracts/overlay.json (harness modules, contract attributes above the real fns, cfg(kani) forwarding wrappers) and runs `cargo kani` / `verus` on the snapshot",
  "baseline_off_cmd": "cd /repo && cargo test --workspace --no-fail-fast --offline",
  "source_commits": [],
  "add_only": True,
 },
 "engines": [
  {"name": "kani-contracts", "path": "bin/check", "serves_properties": [p for p in claimed], "kind_free_text": "Kani 0.68 function contracts (proof_for_contract / stub_verified), full-domain proof harnesses, trait-contract instances with an abstract value type, ghost-recording stubs for third-party callees; CBMC + CaDiCaL / cvc5"},
  {"name": "verus", "path": "lib/verusrun.py", "serves_properties": ["C01"], "kind_free_text": "Verus 0.2026.09.13 on functions extracted mechanically from jaq-core/src/rc_list.rs on every run (token-checked)"},
 ],
 "checks": checks,
 "not_applicable": [{"property_id": p, "reason": r} for p, r in sorted(NA.items())],
 "notes": "Genuine defects found by these checks were repaired in /repo with `fix:` commits; see KNOWN_FINDINGS and DESIGN.md 7.",
}
(VERIF / "MANIFEST.json").write_text(json.dumps(m, indent=1))
print("claimed", claimed, "n/a", sorted(NA))
