"""Decode Kani's concrete-playback byte vectors with the harness's declared input signature and
replay the counterexample *in the language*: a jq filter run on a `jaq` binary built from the
snapshot (debug profile: overflow checks and debug assertions on)."""
import math
import re
import struct
import subprocess
from pathlib import Path

ISIZE_MIN = -(1 << 63)


class _It:
    def __init__(self, vals):
        self.v = [x["bytes"] for x in vals]
        self.i = 0

    def next(self):
        if self.i >= len(self.v):
            raise IndexError("counterexample shorter than the input signature")
        b = self.v[self.i]
        self.i += 1
        return b


def _split_top(s: str, sep=","):
    out, depth, cur = [], 0, ""
    for ch in s:
        if ch in "<([":
            depth += 1
        elif ch in ">)]":
            depth -= 1
        if ch == sep and depth == 0:
            out.append(cur.strip())
            cur = ""
        else:
            cur += ch
    if cur.strip():
        out.append(cur.strip())
    return out


def decode_one(t: str, it: _It):
    t = t.strip()
    if t == "bool":
        return it.next()[0] != 0
    if t in ("u8", "u16", "u32", "u64", "usize"):
        return int.from_bytes(bytes(it.next()), "little", signed=False)
    if t in ("i8", "i16", "i32", "i64", "isize"):
        return int.from_bytes(bytes(it.next()), "little", signed=True)
    if t == "f64":
        return struct.unpack("<d", bytes(it.next()))[0]
    m = re.match(r"Option<(.*)>$", t)
    if m:
        return decode_one(m.group(1), it) if decode_one("bool", it) else None
    m = re.match(r"\[(.*);\s*(\d+)\]$", t)
    if m:
        return [decode_one(m.group(1), it) for _ in range(int(m.group(2)))]
    if t.startswith("(") and t.endswith(")"):
        return [decode_one(x, it) for x in _split_top(t[1:-1])]
    if t == "AnyVal":
        return {"is_int": decode_one("bool", it), "int": decode_one("Option<isize>", it), "flt": decode_one("Option<f64>", it)}
    raise ValueError(f"unknown input type {t}")


def decode(types, vals):
    it = _It(vals)
    return [decode_one(t, it) for t in types]


def jq_num(x) -> str:
    """render a decoded input as a jq expression"""
    if x is None:
        return "null"
    if isinstance(x, bool):
        return "true" if x else "false"
    if isinstance(x, int):
        return "(-9223372036854775807 - 1)" if x == ISIZE_MIN else (f"({x})" if x < 0 else str(x))
    if isinstance(x, float):
        if math.isnan(x):
            return "nan"
        if math.isinf(x):
            return "infinite" if x > 0 else "(-infinite)"
        r = repr(x)
        if "e" not in r and "." not in r:
            r += ".0"
        return f"({r})" if x < 0 or r.startswith("-") else r
    if isinstance(x, dict):  # AnyVal: integer view first, then float view, else a non-number
        if x["int"] is not None:
            return jq_num(x["int"])
        if x["flt"] is not None:
            return jq_num(x["flt"])
        return "null"
    raise ValueError(x)


def is_nonfinite(x) -> bool:
    if isinstance(x, dict):
        return x["int"] is None and (x["flt"] is None or not math.isfinite(x["flt"]))
    return isinstance(x, float) and not math.isfinite(x)


_built = {}


def build_jaq(scratch: Path, logdir: Path):
    if scratch in _built:
        return _built[scratch]
    p = subprocess.run(["cargo", "build", "-q", "--offline", "-p", "jaq", "--target-dir", str(scratch / "target-native")],
                       cwd=scratch, capture_output=True, text=True, timeout=1200)
    (logdir / "build-jaq.log").write_text(p.stdout + p.stderr)
    exe = scratch / "target-native" / "debug" / "jaq"
    _built[scratch] = exe if exe.exists() else None
    return _built[scratch]


def replay(scratch: Path, ob: dict, vals: list, logdir: Path):
    spec = ob.get("inlang")
    if not spec or not vals:
        return None
    try:
        ins = decode(spec["inputs"], vals)
    except (IndexError, ValueError, struct.error) as e:
        return {"ran": False, "why": f"cannot decode counterexample: {e}"}
    names = "abcdefgh"
    flat = ins[0] if len(ins) == 1 and isinstance(ins[0], list) and spec.get("spread") else ins
    filt = spec["filter"]
    for k, x in enumerate(flat[:8]):
        filt = filt.replace("$" + names[k], jq_num(x))
    exe = build_jaq(scratch, logdir)
    if not exe:
        return {"ran": False, "why": "jaq binary did not build from the snapshot", "filter": filt, "decoded_inputs": ins}
    try:
        p = subprocess.run([str(exe), "-nc", filt], capture_output=True, text=True, timeout=60)
    except subprocess.TimeoutExpired:
        return {"ran": True, "filter": filt, "timeout": True, "reproduced": False}
    panicked = p.returncode == 101 or "panicked at" in p.stderr
    expect = spec.get("expect", "no_panic")
    reproduced = panicked
    if expect == "true":
        reproduced = reproduced or p.stdout.strip() != "true"
    elif expect == "int_of_b":
        y = flat[1]
        if isinstance(y, float) and math.isfinite(y) and y == int(y):
            reproduced = reproduced or p.stdout.strip() != str(int(y))
    elif expect == "error_if_nonfinite":
        if any(is_nonfinite(x) for x in flat):
            reproduced = reproduced or p.returncode == 0
        # an integer epoch outside jiff's documented range of seconds must be an error as well
        # (a wrapped product would be answered with a different instant)
        for x in flat:
            if isinstance(x, dict) and x.get("int") is not None and not (-377705023201 <= x["int"] <= 253402207200):
                reproduced = reproduced or p.returncode == 0
    return {"ran": True, "filter": filt, "decoded_inputs": ins, "exit_status": p.returncode, "stdout": p.stdout[-500:],
            "stderr": p.stderr[-800:], "expect": expect, "reproduced": reproduced,
            "cmd": f"jaq -nc {filt!r}   (binary built from the snapshot, debug profile)"}
