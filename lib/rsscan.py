"""Minimal Rust-aware text scanner used by the overlay and by the Verus extractor.

It does not parse Rust.  It knows enough lexical structure (line and nested block comments,
string / raw string / byte string literals, char literals versus lifetimes) to
  * blank out everything that is not code, so that braces and keywords can be matched safely,
  * find the brace-matched extent of an item,
  * find `fn NAME` at a given nesting depth inside an enclosing item.
All functions work on the text of one file and return character offsets into that text.
"""
import re


class AnchorLost(Exception):
    """An item named by the overlay / extractor is not where it is expected (=> undecided)."""


def mask(src: str) -> str:
    """Return `src` with comments and literal contents replaced by spaces (same length,
    newlines kept), so that `{`, `}`, `fn`, ... found in the result are real code."""
    out = list(src)
    i, n = 0, len(src)

    def blank(a, b):
        for k in range(a, b):
            if out[k] != "\n":
                out[k] = " "

    while i < n:
        c = src[i]
        if src.startswith("//", i):
            j = src.find("\n", i)
            j = n if j < 0 else j
            blank(i, j)
            i = j
        elif src.startswith("/*", i):
            depth, j = 1, i + 2
            while j < n and depth:
                if src.startswith("/*", j):
                    depth += 1
                    j += 2
                elif src.startswith("*/", j):
                    depth -= 1
                    j += 2
                else:
                    j += 1
            blank(i, j)
            i = j
        elif c == '"' or (c in "br" and re.match(r'b?r?#*"', src[i:i + 8]) and not (i and (src[i - 1].isalnum() or src[i - 1] == "_"))):
            m = re.match(r'(b?)(r?)(#*)"', src[i:i + 40])
            raw, hashes = bool(m.group(2)), m.group(3)
            j = i + m.end()
            if raw:
                end = src.find('"' + hashes, j)
                end = n if end < 0 else end
                blank(j, end)
                i = end + 1 + len(hashes)
            else:
                while j < n and src[j] != '"':
                    j += 2 if src[j] == "\\" else 1
                blank(i + m.end(), j)
                i = j + 1
        elif c == "'":
            # char literal or lifetime
            m = re.match(r"'(\\.[^']*|[^\\'])'", src[i:i + 12])
            if m:
                blank(i + 1, i + m.end() - 1)
                i += m.end()
            else:
                i += 1
        else:
            i += 1
    return "".join(out)


def block_end(masked: str, open_idx: int) -> int:
    """`open_idx` points at a `{`; return the index just past its matching `}`."""
    assert masked[open_idx] == "{"
    depth = 0
    for k in range(open_idx, len(masked)):
        ch = masked[k]
        if ch == "{":
            depth += 1
        elif ch == "}":
            depth -= 1
            if depth == 0:
                return k + 1
    raise AnchorLost("unbalanced braces")


def depth_at(masked: str, start: int, idx: int) -> int:
    d = 0
    for k in range(start, idx):
        if masked[k] == "{":
            d += 1
        elif masked[k] == "}":
            d -= 1
    return d


def find_item(src: str, header_re: str, start: int = 0, end: int = None, depth: int = 0):
    """Find an item whose header matches `header_re` (searched in masked text between start and
    end, at brace depth `depth` relative to `start`).  Returns (line_start, header_start,
    body_open, item_end): the start of the line the header is on, the match start, the index of
    the `{` opening the body (or of the terminating `;`), and the index past the end."""
    m_src = mask(src)
    end = len(src) if end is None else end
    rx = re.compile(header_re)
    pos = start
    while True:
        m = rx.search(m_src, pos, end)
        if not m:
            raise AnchorLost(f"item /{header_re}/ not found")
        if depth_at(m_src, start, m.start()) == depth:
            break
        pos = m.end()
    # find the body: first `{` or `;` at the same paren/bracket/angle-free level after the header
    k, par = m.end(), 0
    while k < end:
        ch = m_src[k]
        if ch in "([":
            par += 1
        elif ch in ")]":
            par -= 1
        elif ch == "{" and par == 0:
            item_end = block_end(m_src, k)
            break
        elif ch == ";" and par == 0:
            item_end = k + 1
            break
        k += 1
    else:
        raise AnchorLost(f"item /{header_re}/ has no body")
    line_start = src.rfind("\n", 0, m.start()) + 1
    return line_start, m.start(), k, item_end


def fn_header_re(name: str) -> str:
    return r"\bfn\s+" + re.escape(name) + r"\b"


def locate_fn(src: str, name: str, within: str = None):
    """Locate `fn name`, optionally inside the item whose header contains the literal text
    `within` (e.g. "impl PosUsize", "impl core::ops::Add for Num").  Returns find_item's tuple."""
    if within:
        wrx = r"\b" + r"\s+".join(re.escape(w) for w in within.split()) + r"(?![\w:])"
        _, _, body_open, item_end = find_item(src, wrx)
        return find_item(src, fn_header_re(name), body_open + 1, item_end - 1, 0)
    return find_item(src, fn_header_re(name), 0, None, 0)


def attr_insertion_point(src: str, line_start: int) -> int:
    """Attributes go immediately above the line of the `fn` / `struct` keyword (below doc
    comments and existing attributes, which is legal Rust)."""
    return line_start
