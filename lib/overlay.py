"""Snapshot of /repo's working tree + mechanical, add-only overlay of contracts and harnesses.

See DESIGN.md 3.1.  The overlay
  * copies harness modules (compiled only under cfg(kani)) next to the crate root and appends
    `#[cfg(kani)] mod verif_k;` to the crate root,
  * inserts contract attribute lines immediately above the real `fn` they are anchored to,
  * appends `#[cfg(kani)]` forwarding wrappers to files that define private items,
  * applies the few listed one-line rewrites (forbid(unsafe_code) relaxed under kani, module
    visibility),
  * appends cfg(kani)-only dependencies to a scratch Cargo.toml.
Afterwards `guard()` diffs the scratch tree against /repo and refuses anything else.
"""
import difflib
import json
import os
import shutil
import subprocess
import tempfile
from pathlib import Path

from rsscan import AnchorLost, locate_fn, find_item

VERIF = Path(__file__).resolve().parent.parent
REPO = Path(os.environ.get("VERIF_REPO", "/repo"))
SPEC = json.loads((VERIF / "contracts" / "overlay.json").read_text())

FORBID_FROM = "#![forbid(unsafe_code)]"
FORBID_TO = "#![cfg_attr(not(kani), forbid(unsafe_code))]"


def scratch_root() -> Path:
    base = os.environ.get("VERIF_SCRATCH", "/var/tmp")
    Path(base).mkdir(parents=True, exist_ok=True)
    return Path(tempfile.mkdtemp(prefix="jaq-verif.", dir=base))


def snapshot(dst: Path):
    """Copy /repo's *working tree* (not HEAD), without build output and VCS data."""
    subprocess.run(
        ["rsync", "-a", "--exclude", "/target", "--exclude", ".git", f"{REPO}/", f"{dst}/"],
        check=True,
    )


def _insert_attr(path: Path, item: dict, log: list):
    src = path.read_text()
    kind = item.get("kind", "fn")
    if kind == "fn":
        line_start, _, _, _ = locate_fn(src, item["item"], item.get("within"))
    else:  # struct / enum / trait header given as regex
        line_start, _, _, _ = find_item(src, item["item"])
    indent = src[line_start:len(src)][: len(src[line_start:]) - len(src[line_start:].lstrip(" \t"))]
    text = "".join(indent + l + "\n" for l in item["lines"])
    path.write_text(src[:line_start] + text + src[line_start:])
    log.append({"file": str(path), "anchor": (item.get("within") or "") + " :: " + item["item"], "lines_added": len(item["lines"])})


def apply(scratch: Path, crates):
    """Apply the overlay for the given crates.  Returns a log (list of dicts) for the evidence.
    Raises AnchorLost if a named function / line is not found."""
    log = []
    done_attr_files = {}
    for crate in crates:
        spec = SPEC[crate]
        root = scratch / spec["root"]
        # 1. harness modules
        for src_rel, dst_rel in spec.get("copy", []):
            shutil.copyfile(VERIF / src_rel, scratch / dst_rel)
            log.append({"file": dst_rel, "copied_from": src_rel})
        text = root.read_text()
        if spec.get("forbid_unsafe"):
            if FORBID_FROM not in text:
                raise AnchorLost(f"{spec['root']}: line {FORBID_FROM!r} not found")
            text = text.replace(FORBID_FROM, FORBID_TO, 1)
        text += "\n" + spec.get("root_append", "#[cfg(kani)]\nmod verif_k;\n")
        root.write_text(text)
        # 2. one-line rewrites
        for rw in spec.get("rewrite", []):
            p = scratch / rw["file"]
            t = p.read_text()
            if t.count(rw["from"]) != 1:
                raise AnchorLost(f"{rw['file']}: expected exactly one {rw['from']!r}")
            p.write_text(t.replace(rw["from"], rw["to"], 1))
            log.append({"file": rw["file"], "rewrite": [rw["from"], rw["to"]]})
        # 3. contract attributes (insert bottom-up per file so earlier offsets stay valid: we
        #    simply re-scan the file for every insertion)
        for item in spec.get("attrs", []):
            _insert_attr(scratch / item["file"], item, log)
        # 4. appended cfg(kani) wrappers
        for src_rel, dst_rel in spec.get("append", []):
            p = scratch / dst_rel
            add = (VERIF / src_rel).read_text()
            p.write_text(p.read_text() + "\n" + add)
            log.append({"file": dst_rel, "appended_from": src_rel, "lines_added": add.count("\n") + 1})
        # 5. cfg(kani)-only dependencies
        if "cargo_append" in spec:
            f, add = spec["cargo_append"]
            p = scratch / f
            p.write_text(p.read_text() + "\n" + add + "\n")
            log.append({"file": f, "cargo_append": add})
    return log


def allowed_changed_lines():
    s = {FORBID_FROM}
    for spec in SPEC.values():
        for rw in spec.get("rewrite", []):
            s.add(rw["from"].strip())
    return s


def guard(scratch: Path, crates):
    """Diff scratch against /repo for every file of the overlaid crates: only additions are
    allowed, except for the listed one-line rewrites.  Returns statistics; raises on violation."""
    added = removed = files = 0
    allowed = allowed_changed_lines()
    for crate in crates:
        cdir = Path(SPEC[crate]["root"]).parts[0]
        for p in sorted((scratch / cdir).rglob("*")):
            if not p.is_file() or "target" in p.relative_to(scratch).parts:
                continue
            rel = p.relative_to(scratch)
            orig = REPO / rel
            new = p.read_text(errors="replace").splitlines()
            old = orig.read_text(errors="replace").splitlines() if orig.exists() else []
            if new == old:
                continue
            files += 1
            for l in difflib.unified_diff(old, new, lineterm="", n=0):
                if l.startswith("+++") or l.startswith("---") or l.startswith("@@"):
                    continue
                if l.startswith("+"):
                    added += 1
                elif l.startswith("-"):
                    removed += 1
                    if l[1:].strip() not in allowed:
                        raise RuntimeError(f"overlay guard: {rel}: line removed/changed that is not a listed rewrite: {l[1:]!r}")
    return {"files_touched": files, "lines_added": added, "lines_replaced": removed}
