"""placeholder (replaced below by the real extractor/runner)"""
def run(scratch, ob, logdir):
    return {"status": "undecided", "reason": "verus unit not built yet", "checks": 0, "failed": [], "covers": [0, 0], "time_s": None}, {"cmd": "", "wall_s": 0, "rc": 0}
