"""Verus unit: mechanical extraction of real functions into a verus!{} file, on every run.

The extractor copies the listed items out of the snapshot token for token and splices spec
text (from /verif/verus/<unit>.spec.json) in at three kinds of place only:
  * between a function's signature and its body  (requires / ensures), naming the return value
    `-> T` => `-> (r: T)`  (Verus syntax for referring to the result),
  * at a loop head (invariant / ensures / decreases), naming the loop variable where the source
    has `_`  (the invariant must mention it),
  * as a `proof { .. }` statement at the start of a loop body (ghost code, erased).
After building the file it *erases* those spec constructs again with an independent routine and
compares the remaining tokens with the tokens of the source functions: any difference (other
than the listed renames) aborts the unit as undecided.  Dropped items are listed in the
evidence.  A missing item or changed signature => undecided (exit 2), never a violation.
"""
import json
import re
import subprocess
import time
from pathlib import Path

from rsscan import AnchorLost, find_item, mask, locate_fn

VERIF = Path(__file__).resolve().parent.parent

TOKEN_RE = re.compile(r"[A-Za-z_][A-Za-z0-9_]*|\d+|'[A-Za-z_]\w*|::|->|=>|==|!=|<=|>=|&&|\|\||\.\.|[^\sA-Za-z0-9_]")


def tokens(code: str):
    return TOKEN_RE.findall(mask(code))


def _strip_attrs_and_docs(text: str) -> str:
    out = []
    for line in text.splitlines():
        if re.match(r"\s*(///|//!|//|#\[)", line):
            continue
        out.append(line)
    return "\n".join(out)


def build(scratch: Path, spec: dict):
    """Return (verus_source, provenance) or raise AnchorLost."""
    src_path = scratch / spec["source"]
    src = src_path.read_text()
    parts, prov = [], {"source": spec["source"], "items": [], "dropped": spec.get("dropped", []), "renames": []}
    # 1. type definitions, copied without attributes
    for it in spec["types"]:
        ls, hs, bo, ie = find_item(src, it["header"])
        text = src[hs:ie]
        # the visibility keyword before the header (e.g. `pub struct`)
        pre = src[ls:hs]
        text = pre.lstrip() + text if pre.strip() in ("pub", "pub(crate)") else text
        for a, b in it.get("replace", []):
            if a not in text:
                raise AnchorLost(f"{spec['source']}: expected {a!r} in {it['header']}")
            text = text.replace(a, b)
            prov["renames"].append([a, b])
        parts.append(text)
        prov["items"].append(it["header"])
    # 2. functions of the impl block
    fn_texts, orig_tokens = [], []
    for f in spec["fns"]:
        ls, hs, bo, ie = locate_fn(src, f["name"], spec["impl"])
        sig, body = src[ls:bo], src[bo:ie]
        sig = _strip_attrs_and_docs(sig)
        orig_tokens.append((f["name"], tokens(sig + body)))
        # name the return value
        m = re.search(r"->\s*(.+?)\s*$", sig, re.S)
        if not m:
            raise AnchorLost(f"fn {f['name']}: no return type")
        ret = m.group(1)
        if f.get("ret_type") and f["ret_type"].replace(" ", "") != ret.replace(" ", ""):
            raise AnchorLost(f"fn {f['name']}: return type changed ({ret!r}, expected {f['ret_type']!r})")
        sig2 = sig[: m.start()] + f"-> (r: {ret})\n" + "        " + f["spec"].strip() + "\n    "
        body2 = body
        for lp in f.get("loops", []):
            if body2.count(lp["head"]) != 1:
                raise AnchorLost(f"fn {f['name']}: loop head {lp['head']!r} not found exactly once")
            i = body2.index(lp["head"])
            j = body2.index("{", i + len(lp["head"]) - 1) if not lp["head"].rstrip().endswith("{") else i + len(lp["head"]) - 1
            head_new = lp.get("head_renamed", lp["head"]).rstrip().rstrip("{").rstrip()
            if "head_renamed" in lp:
                prov["renames"].append([lp["head"].strip(), lp["head_renamed"].strip()])
            body2 = (body2[:i] + head_new + "\n            " + lp["spec"].strip() + "\n        {"
                     + ("\n            " + lp["body_prefix"].strip() if lp.get("body_prefix") else "") + body2[j + 1:])
        fn_texts.append((f["name"], sig2 + body2))
        prov["items"].append(f"{spec['impl']} :: fn {f['name']}")
    impl_block = spec["impl"] + " {\n" + spec.get("impl_prefix", "") + "\n" + "\n\n".join(t for _, t in fn_texts) + "\n}"
    out = spec["prelude"] + "\n" + "\n\n".join(parts) + "\n\n" + impl_block + "\n" + spec.get("postlude", "} // verus!\nfn main() {}\n")
    # 3. independent erasure check
    for (name, otoks), (_, vtext) in zip(orig_tokens, fn_texts):
        etoks = tokens(erase_spec(vtext))
        etoks = _normalise(etoks, spec)
        otoks = _normalise(otoks, spec)
        if etoks != otoks:
            k = next((i for i, (a, b) in enumerate(zip(etoks, otoks)) if a != b), min(len(etoks), len(otoks)))
            raise AnchorLost(f"extraction check failed for fn {name}: exec tokens differ at {k}: {etoks[k-3:k+4]} vs {otoks[k-3:k+4]}")
    return out, prov


def _normalise(toks, spec):
    """apply the listed token renames (loop variable `_` -> name) to both sides"""
    ren = {a: b for a, b in spec.get("token_renames", [])}
    return [ren.get(t, t) for t in toks]


def erase_spec(vtext: str) -> str:
    """Remove Verus-only constructs from a function: the `(r: T)` result name, spec clauses
    between a header and its `{`, `proof { .. }` statements.  Independent of build()."""
    t = vtext
    m_t = mask(t)
    # result name
    m = re.search(r"->\s*\(\s*\w+\s*:\s*", m_t)
    if m:
        # find the matching ')'
        depth, k = 1, m.end()
        while depth:
            if m_t[k] == "(":
                depth += 1
            elif m_t[k] == ")":
                depth -= 1
            k += 1
        t = t[: m.start()] + "-> " + t[m.end(): k - 1] + t[k:]
    # proof blocks
    while True:
        m_t = mask(t)
        m = re.search(r"\bproof\s*\{", m_t)
        if not m:
            break
        depth, k = 0, m.end() - 1
        while True:
            if m_t[k] == "{":
                depth += 1
            elif m_t[k] == "}":
                depth -= 1
                if depth == 0:
                    break
            k += 1
        t = t[: m.start()] + t[k + 1:]
    # spec clauses: from a clause keyword up to the next `{` at brace depth 0 of the clause
    while True:
        m_t = mask(t)
        m = re.search(r"\b(requires|ensures|invariant_except_break|invariant|decreases)\b", m_t)
        if not m:
            break
        k, par = m.end(), 0
        while True:
            ch = m_t[k]
            if ch in "([":
                par += 1
            elif ch in ")]":
                par -= 1
            elif ch == "{" and par == 0:
                # a `{` that opens a block (not inside an expression like `if c { a } else { b }`):
                # clause expressions end with `,` before the body; accept the `{` only if the
                # previous non-space char is `,` or the clause keyword region ended
                prev = m_t[:k].rstrip()[-1]
                if prev == ",":
                    break
                # skip a braced sub-expression
                depth = 0
                while True:
                    if m_t[k] == "{":
                        depth += 1
                    elif m_t[k] == "}":
                        depth -= 1
                        if depth == 0:
                            break
                    k += 1
            k += 1
        t = t[: m.start()] + t[k:]
    return t


def run(scratch: Path, ob: dict, logdir: Path):
    t0 = time.time()
    spec = json.loads((VERIF / ob["spec"]).read_text())
    run_info = {"cmd": "", "wall_s": 0, "rc": None}
    base = {"checks": 0, "failed": [], "covers": [0, 0], "time_s": None}
    try:
        text, prov = build(scratch, spec)
    except AnchorLost as e:
        return dict(base, status="undecided", reason=f"anchor lost: {e}"), run_info
    out_rs = scratch / "verus_unit.rs"
    out_rs.write_text(text)
    (logdir / f"{ob['id']}.extracted.rs").write_text(text)
    cmd = ["verus", str(out_rs), "--output-json", "--time"] + spec.get("verus_args", [])
    try:
        p = subprocess.run(cmd, cwd=scratch, capture_output=True, text=True, timeout=ob.get("timeout", 300))
    except subprocess.TimeoutExpired:
        return dict(base, status="undecided", reason="verus timeout"), run_info
    (logdir / f"{ob['id']}.verus.txt").write_text(p.stdout + "\n--- stderr ---\n" + p.stderr)
    run_info = {"cmd": " ".join(cmd[:1] + ["<extracted>/" + Path(spec["source"]).name] + cmd[2:]), "wall_s": round(time.time() - t0, 1), "rc": p.returncode}
    try:
        js = json.loads(p.stdout[p.stdout.index("{"):])
    except (ValueError, json.JSONDecodeError):
        return dict(base, status="undecided", reason="verus produced no JSON: " + (p.stderr or p.stdout)[-300:]), run_info
    vr = js.get("verification-results", {})
    verified, errors = vr.get("verified", 0), vr.get("errors", 0)
    times = js.get("times-ms", {})
    res = dict(base, checks=verified + errors, time_s=(times.get("smt", {}).get("total", 0) or 0) / 1000.0,
               provenance=prov, verified=verified, errors=errors)
    msgs = re.findall(r"^error.*(?:\n(?!error|warning|verification results).*){0,12}", p.stderr, re.M)
    if not vr.get("encountered-vir-error", False) and errors == 0 and verified >= spec["expect_verified"] and vr.get("success", True):
        res["status"] = "ok"
    elif vr.get("encountered-vir-error") or (errors == 0 and verified < spec["expect_verified"]):
        res.update(status="undecided", reason=f"verus did not verify the expected {spec['expect_verified']} items (verified {verified}, errors {errors}): " + " | ".join(m.splitlines()[0] for m in msgs[:3]))
    else:
        # a proof obligation generated from the extracted source failed
        res.update(status="violated", reason="; ".join(m.splitlines()[0] for m in msgs[:4]) or f"{errors} verification errors",
                   failed=[{"check": "verus", "status": "FAILURE", "description": m.splitlines()[0], "location": (re.search(r"--> (.*)", m) or [None, ""])[1]} for m in msgs[:6]],
                   output=p.stderr[-5000:])
    return res, run_info
