"""Run Kani harnesses on the overlaid snapshot and classify the per-check results.

One `cargo kani` invocation per crate runs all selected harnesses (`-j`, per-harness result
files, per-harness timeout).  Classification follows DESIGN.md section 4: a harness is
  ok         every check SUCCESS/UNREACHABLE (Kani's IEEE "NaN on ..." checks ignored), every
             cover SATISFIED, expected stubs applied, at least one check
  violated   a failed check is the contract clause, an assertion of the harness module, or an
             automatic safety check located in a /repo source file or in core/alloc called
             from it
  undecided  timeout, out of memory, CBMC crash, compile error, failed unwinding assertion,
             unsupported construct, failed check located in a third-party dependency,
             unsatisfied cover (vacuity guard), missing stub
"""
import os
import re
import shutil
import signal
import subprocess
import time
from pathlib import Path

CHECK_RE = re.compile(
    r"^Check (\d+): (.+)\n\t - Status: (\w+)\n\t - Description: \"((?:.|\n)*?)\"(?:\n\t - Location: (.*))?$",
    re.M,
)
KANI_FLAGS = ["-Z", "function-contracts", "-Z", "stubbing", "-Z", "unstable-options"]


def env():
    e = dict(os.environ)
    e["CARGO_NET_OFFLINE"] = "true"
    e.pop("CARGO_TARGET_DIR", None)
    e.pop("RUSTFLAGS", None)
    return e


def _run(cmd, cwd, timeout, log_path=None):
    """Run a command in its own process group, kill the group on timeout."""
    t0 = time.time()
    p = subprocess.Popen(cmd, cwd=cwd, env=env(), stdout=subprocess.PIPE, stderr=subprocess.STDOUT,
                         text=True, errors="replace", start_new_session=True)
    try:
        out, _ = p.communicate(timeout=timeout)
        timed_out = False
    except subprocess.TimeoutExpired:
        os.killpg(p.pid, signal.SIGKILL)
        out, _ = p.communicate()
        timed_out = True
    if log_path:
        Path(log_path).write_text(out)
    return p.returncode, out, timed_out, time.time() - t0


def classify_location(loc: str):
    """-> 'repo' | 'harness' | 'core' | 'kani' | 'thirdparty' | 'builtin'"""
    l = loc.strip()
    if "verif_k" in l or "verif_anyval" in l or "verif_stubs" in l:
        return "harness"
    if re.match(r"^(\.\./)*(jaq[\w-]*)/src/", l) or re.match(r"^src/", l):
        return "repo"
    if "/rustlib/src/rust/library/" in l or l.startswith("library/core") or l.startswith("library/alloc") or l.startswith("library/std"):
        return "core"
    if "kani" in l and ("library/kani" in l or "kani_core" in l or "kani_lib" in l):
        return "kani"
    if ".cargo/registry" in l or "/registry/src/" in l:
        return "thirdparty"
    if l.startswith("<builtin"):
        return "builtin"
    return "other"


def _stub_applied(name: str, text: str) -> bool:
    """Kani prints `- Stub: a :: b :: c -> stub` / `- Verified stub: a::b`."""
    want = name.replace(" ", "")
    return any(want in l.replace(" ", "") for l in text.splitlines() if re.search(r"- (Verified stub|Stub):", l))


def parse_result(text: str, ob: dict):
    """Classify one harness result file."""
    res = {"status": None, "checks": 0, "failed": [], "ignored_nan_checks": 0, "covers": [0, 0],
           "time_s": None, "reason": ""}
    m = re.search(r"Verification Time: ([\d.]+)s", text)
    if m:
        res["time_s"] = float(m.group(1))
    if "CBMC timed out" in text:
        res.update(status="undecided", reason="timeout")
        return res
    if re.search(r"CBMC failed with status|out of memory|std::bad_alloc|Killed", text) and "SUMMARY:" not in text:
        m2 = re.search(r"CBMC failed with status (\d+)", text)
        res.update(status="undecided", reason="cbmc crashed" + (f" (status {m2.group(1)})" if m2 else ""))
        return res
    checks = CHECK_RE.findall(text)
    if not checks or "SUMMARY:" not in text:
        res.update(status="undecided", reason="no per-check results (compile error or driver failure)")
        return res
    prop_fail, undecided = [], []
    # cross-check the parser against Kani's own summary: a disagreement is never a pass
    msum = re.search(r"\*\* (\d+) of (\d+) failed", text)
    n_fail_parsed = sum(1 for c in checks if c[2] == "FAILURE" and not (".cover." in c[1] or c[3].startswith("cover condition")))
    n_block_starts = len(re.findall(r"^Check \d+: ", text, re.M))
    if not msum or int(msum.group(1)) != n_fail_parsed or n_block_starts != len(checks):
        res.update(status="undecided", reason=f"result parser disagrees with Kani's summary ({msum.group(0) if msum else 'no summary'}; parsed {n_fail_parsed} failed of {len(checks)} blocks, {n_block_starts} block starts)")
        return res
    verdict_ok = "VERIFICATION:- SUCCESSFUL" in text
    for num, cid, status, desc, loc in checks:
        is_cover = ".cover." in cid or desc.startswith("cover condition")
        if is_cover:
            res["covers"][1] += 1
            if status == "SATISFIED":
                res["covers"][0] += 1
            continue
        res["checks"] += 1
        if status in ("SUCCESS", "UNREACHABLE"):
            continue
        rec = {"check": cid, "status": status, "description": desc, "location": loc.strip()}
        if desc.startswith("NaN on ") or desc.startswith("arithmetic overflow on floating-point"):
            res["ignored_nan_checks"] += 1
            continue
        if "unwinding assertion" in desc or ".unwind." in cid or "recursion unwinding" in desc:
            undecided.append(dict(rec, why="unwinding assertion"))
            continue
        if status == "UNDETERMINED":
            undecided.append(dict(rec, why="undetermined"))
            continue
        if "not currently supported by Kani" in desc or "unsupported" in cid.lower() or "is not supported" in desc:
            undecided.append(dict(rec, why="unsupported construct reached"))
            continue
        where = classify_location(loc)
        if where in ("repo", "harness", "core") or (where in ("kani",) and ("contract" in desc.lower() or "|r" in desc)):
            prop_fail.append(dict(rec, where=where))
        elif where == "thirdparty" and ob.get("composes_dependency"):
            prop_fail.append(dict(rec, where=where))
        else:
            undecided.append(dict(rec, where=where, why="failed check outside /repo code (possibly a stub artefact)"))
    res["failed"] = prop_fail
    res["undecided_checks"] = undecided
    if prop_fail:
        res["status"] = "violated"
        res["reason"] = "; ".join(sorted({f"{f['description']} @ {f['location']}" for f in prop_fail}))[:600]
    elif undecided:
        res["status"] = "undecided"
        res["reason"] = "; ".join(sorted({f"{u['why']}: {u['description']} @ {u['location']}" for u in undecided}))[:600]
    elif res["checks"] == 0:
        res.update(status="undecided", reason="vacuity guard: zero checks generated")
    elif res["covers"][0] != res["covers"][1]:
        res.update(status="undecided", reason=f"vacuity guard: only {res['covers'][0]} of {res['covers'][1]} cover properties satisfied")
    elif ob.get("min_covers", 0) > res["covers"][1]:
        res.update(status="undecided", reason="vacuity guard: fewer cover properties than declared")
    else:
        missing = [s for s in ob.get("stubs", []) if not _stub_applied(s, text)]
        if missing and not ob.get("_stubs_in_stdout"):
            res.update(status="undecided", reason="expected stub(s) not applied: " + ", ".join(missing))
        else:
            res["status"] = "ok"
    if res["status"] == "ok" and not verdict_ok and res["ignored_nan_checks"] == 0:
        res.update(status="undecided", reason="Kani reports FAILED but no failed check was classified")
    return res


def run_crate(scratch: Path, crate: str, obligations: list, timeout_s: int, jobs: int, logdir: Path):
    """Run all harnesses of `obligations` (same crate) in one cargo-kani invocation.
    Returns {obligation id: result dict}."""
    outdir = scratch / "result_output_dir"
    if outdir.exists():
        shutil.rmtree(outdir)
    cmd = ["cargo", "kani", "-p", crate] + KANI_FLAGS
    for ob in obligations:
        cmd += ["--harness", ob["harness"]]
    cmd += ["--exact", "-j", str(max(1, min(jobs, len(obligations)))), "--output-into-files",
            "--harness-timeout", f"{timeout_s}s", "--output-format", "terse"]
    # global guard: compile + ceil(n/jobs) rounds of harness timeouts + slack
    rounds = -(-len(obligations) // max(1, jobs))
    rc, out, timed_out, wall = _run(cmd, scratch, 420 + rounds * (timeout_s + 30), logdir / f"kani-{crate}.log")
    results = {}
    # attribute the driver's "- Stub:" lines to harnesses (per thread under -j)
    stub_lines, cur = {}, {}
    for line in out.splitlines():
        m = re.match(r"^(?:Thread (\d+): )?Checking harness (\S+?)\.\.\.", line)
        if m:
            cur[m.group(1)] = m.group(2)
            continue
        m = re.match(r"^(?:Thread (\d+): )?\s+- (Verified stub|Stub): ", line)
        if m and m.group(1) in cur:
            stub_lines[cur[m.group(1)]] = stub_lines.get(cur[m.group(1)], "") + line + "\n"
    compile_error = bool(re.search(r"^error(\[E\d+\])?:", out, re.M)) and "Checking harness" not in out
    for ob in obligations:
        f = outdir / ob["harness"]
        if compile_error:
            r = {"status": "undecided", "reason": "overlay does not compile: " + "; ".join(re.findall(r"^error.*$", out, re.M)[:3]),
                 "checks": 0, "failed": [], "covers": [0, 0], "time_s": None}
        elif not f.exists():
            r = {"status": "undecided", "reason": "no result file (driver timeout or harness not found)" if timed_out or True else "",
                 "checks": 0, "failed": [], "covers": [0, 0], "time_s": None}
        else:
            text = f.read_text(errors="replace")
            # stub lines are printed by the driver thread; they are part of the per-harness file
            # in this Kani version, but fall back to the global log
            ob2 = dict(ob)
            mine = stub_lines.get(ob["harness"], "")
            if all(_stub_applied(s, mine) for s in ob.get("stubs", [])):
                ob2["_stubs_in_stdout"] = True
            r = parse_result(text, ob2)
            (logdir / f"{ob['id']}.kani.txt").write_text(_excerpt(text))
        results[ob["id"]] = r
    return results, {"cmd": " ".join(cmd), "wall_s": round(wall, 1), "rc": rc}


def _excerpt(text: str, keep_failed=True) -> str:
    """Keep everything except SUCCESS/UNREACHABLE check blocks (thousands of lines)."""
    out, lines = [], text.splitlines()
    i = 0
    while i < len(lines):
        if lines[i].startswith("Check ") and i + 3 < len(lines) and lines[i + 1].startswith("\t - Status:"):
            st = lines[i + 1].split(":", 1)[1].strip()
            if st not in ("SUCCESS", "UNREACHABLE"):
                out += lines[i:i + 4]
            i += 4
        else:
            if not re.match(r"^(warning|\s+\||\s+-->|\s+= note)", lines[i]):
                out.append(lines[i])
            i += 1
    return "\n".join(out) + "\n"


def playback(scratch: Path, crate: str, ob: dict, timeout_s: int, logdir: Path):
    """Re-run a failed harness with concrete playback; returns (unit test text or None, decoded
    byte vectors)."""
    cmd = ["cargo", "kani", "-p", crate] + KANI_FLAGS + ["-Z", "concrete-playback", "--concrete-playback=print",
           "--harness", ob["harness"], "--exact", "--output-format", "terse", "--harness-timeout", f"{timeout_s}s"]
    rc, out, timed_out, wall = _run(cmd, scratch, timeout_s + 300, logdir / f"{ob['id']}.playback.log")
    tests = re.findall(r"```\n(.*?)```", out, re.S)
    tests = [t for t in tests if "Check for `cover`" not in t]
    if not tests:
        return None, []
    test = tests[0]
    vals = []
    for m in re.finditer(r"//\s*(.+)\n\s*vec!\[([\d, ]*)\]", test):
        vals.append({"as_printed": m.group(1).strip(), "bytes": [int(x) for x in m.group(2).replace(" ", "").split(",") if x]})
    return test, vals


def native_replay(scratch: Path, crate: str, spec_root: str, test_text: str, logdir: Path, obid: str):
    """Compile the generated playback unit test into the overlaid crate with rustc (no CBMC)
    and run it: it must fail (panic) on the real code."""
    m = re.search(r"fn (kani_concrete_playback_\w+)\(", test_text)
    if not m:
        return {"ran": False, "why": "no test name"}
    name = m.group(1)
    vk = scratch / Path(spec_root).parent / "verif_k.rs"
    orig = vk.read_text()
    t = test_text.replace("Vec<Vec<u8>>", "alloc::vec::Vec<alloc::vec::Vec<u8>>").replace("vec![", "alloc::vec![")
    vk.write_text(orig + "\n" + t + "\n")
    # the playback subcommand builds every test target of the package; integration tests need
    # dev-features that are not enabled here, so they are removed from the *scratch* copy
    tdir = scratch / Path(spec_root).parts[0] / "tests"
    if tdir.exists():
        shutil.rmtree(tdir)
    try:
        cmd = ["cargo", "kani", "playback", "-p", crate, "-Z", "concrete-playback", "--", name]
        rc, out, timed_out, wall = _run(cmd, scratch, 900, logdir / f"{obid}.native.log")
    finally:
        vk.write_text(orig)
    failed = bool(re.search(r"test result: FAILED|panicked at", out))
    passed = bool(re.search(r"test result: ok\. 1 passed", out))
    excerpt = "\n".join(l for l in out.splitlines() if re.search(r"panicked at|test result|attempt to|assertion|Failed|^test ", l))[:1500]
    return {"ran": failed or passed, "reproduced": failed, "test": name, "excerpt": excerpt, "wall_s": round(wall, 1)}
